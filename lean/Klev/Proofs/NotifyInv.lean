/-
The token invariant of the notifier and its preservation by every event.
-/
import Klev.Proofs.NotifyStep

namespace Klev.Notify

/-! ### List helpers -/

theorem get_set_cases {l : List Th} {i k : Nat} {a u : Th} (h : (l.set i a)[k]? = some u) :
    (k = i ∧ u = a) ∨ (k ≠ i ∧ l[k]? = some u) := by
  rw [List.getElem?_set] at h
  by_cases hik : i = k
  · subst hik
    simp at h
    exact Or.inl ⟨rfl, h.2.symm⟩
  · rw [if_neg hik] at h
    exact Or.inr ⟨fun e => hik e.symm, h⟩

theorem get_lt {l : List Th} {i : Nat} {t : Th} (h : l[i]? = some t) : i < l.length := by
  rcases List.getElem?_eq_some_iff.mp h with ⟨hlt, _⟩
  exact hlt

theorem get_set_self {l : List Th} {i : Nat} {t a : Th} (h : l[i]? = some t) :
    (l.set i a)[i]? = some a :=
  List.getElem?_set_self (get_lt h)

theorem get_set_ne {l : List Th} {i k : Nat} {a u : Th} (hne : k ≠ i) (h : l[k]? = some u) :
    (l.set i a)[k]? = some u := by
  rw [List.getElem?_set_ne (fun e => hne e.symm)]
  exact h

theorem get_append_cases {l : List Th} {a u : Th} {k : Nat} (h : (l ++ [a])[k]? = some u) :
    l[k]? = some u ∨ (k = l.length ∧ u = a) := by
  by_cases hk : k < l.length
  · rw [List.getElem?_append_left hk] at h
    exact Or.inl h
  · have hk' : l.length ≤ k := Nat.le_of_not_lt hk
    rw [List.getElem?_append_right hk'] at h
    have hlt := get_lt h
    simp at hlt
    have hz : k - l.length = 0 := hlt
    rw [hz] at h
    simp at h
    exact Or.inr ⟨by omega, h.symm⟩

theorem get_append_left {l : List Th} {a u : Th} {k : Nat} (h : l[k]? = some u) :
    (l ++ [a])[k]? = some u := by
  rw [List.getElem?_append_left (get_lt h)]
  exact h

/-! ### Counting token holders -/

/-- Number of threads inside their token window. -/
def holders : List Th → Nat
  | [] => 0
  | t :: ts => (if inWindow t = true then 1 else 0) + holders ts

theorem holders_set {ths : List Th} {i : Nat} {t t' : Th} (h : ths[i]? = some t) :
    holders (ths.set i t') + (if inWindow t = true then 1 else 0)
      = holders ths + (if inWindow t' = true then 1 else 0) := by
  induction ths generalizing i with
  | nil => simp at h
  | cons a as ih =>
    cases i with
    | zero =>
      simp at h
      subst h
      simp only [List.set_cons_zero, holders]
      omega
    | succ i =>
      simp at h
      have := ih h
      simp only [List.set_cons_succ, holders]
      omega

theorem holders_append (ths : List Th) (t : Th) :
    holders (ths ++ [t]) = holders ths + (if inWindow t = true then 1 else 0) := by
  induction ths with
  | nil => simp [holders]
  | cons a as ih => simp only [List.cons_append, holders, ih]; omega

theorem holders_zero {ths : List Th} (h0 : holders ths = 0) {k : Nat} {u : Th}
    (h : ths[k]? = some u) : inWindow u = false := by
  induction ths generalizing k with
  | nil => simp at h
  | cons a as ih =>
    simp only [holders] at h0
    cases k with
    | zero =>
      simp at h
      subst h
      cases hw : inWindow a
      · rfl
      · rw [hw] at h0; simp at h0
    | succ k =>
      simp at h
      exact ih (by omega) h

theorem holders_pos {ths : List Th} (h : 0 < holders ths) :
    ∃ (k : Nat) (u : Th), ths[k]? = some u ∧ inWindow u = true := by
  induction ths with
  | nil => simp [holders] at h
  | cons a as ih =>
    cases hw : inWindow a
    · simp only [holders, hw] at h
      obtain ⟨k, u, hk, hu⟩ := ih (by simpa using h)
      exact ⟨k + 1, u, by simpa using hk, hu⟩
    · exact ⟨0, a, by simp, hw⟩

theorem holders_unique {ths : List Th} (h1 : holders ths ≤ 1) {i j : Nat} {t u : Th}
    (hi : ths[i]? = some t) (hj : ths[j]? = some u) (ht : inWindow t = true)
    (hu : inWindow u = true) : i = j := by
  induction ths generalizing i j with
  | nil => simp at hi
  | cons a as ih =>
    simp only [holders] at h1
    cases i with
    | zero =>
      cases j with
      | zero => rfl
      | succ j =>
        simp at hi hj
        subst hi
        rw [ht] at h1
        have h0 : holders as = 0 := by simp at h1; omega
        have := holders_zero h0 hj
        rw [hu] at this
        cases this
    | succ i =>
      cases j with
      | zero =>
        simp at hi hj
        subst hj
        rw [hu] at h1
        have h0 : holders as = 0 := by simp at h1; omega
        have := holders_zero h0 hi
        rw [ht] at this
        cases this
      | succ j =>
        simp at hi hj
        have : i = j := ih (by omega) hi hj
        omega

/-! ### The invariant -/

/-- `ch` is the current token channel: it sits in the barrier or in the holder's local `b`. -/
def IsCur (s : St) (ths : List Th) (ch : Nat) : Prop :=
  s.barrier = .full ch ∨ ∃ (j : Nat) (u : Th), ths[j]? = some u ∧ inWindow u = true ∧ u.b = some ch

/-- The token invariant, on the components of a configuration. -/
structure TokenInv' (s : St) (ths : List Th) : Prop where
  /-- no send on / close of a closed channel has happened -/
  noPanic : s.panicked = false
  /-- thread-local well-formedness (pc in range, `ok`/`b` coherent, `b < fresh`) -/
  thInv : ∀ (i : Nat) (t : Th), ths[i]? = some t → ThInv s t
  /-- closed channels were allocated -/
  closedLt : ∀ ch, ch ∈ s.closedCh → ch < s.fresh
  /-- barrier full: nobody holds the token; the channel in it is open and allocated -/
  full : ∀ ch, s.barrier = .full ch → holders ths = 0 ∧ ch ∉ s.closedCh ∧ ch < s.fresh
  /-- barrier empty: exactly one holder -/
  empty : s.barrier = .empty → holders ths = 1
  /-- barrier closed: nobody holds the token -/
  closed : s.barrier = .closed → holders ths = 0
  /-- the holder's channel is closed iff the holder is a Set/Close thread past its `closeB` -/
  holder : ∀ (i : Nat) (t : Th), ths[i]? = some t → inWindow t = true →
    ∀ ch, t.b = some ch → (ch ∈ s.closedCh ↔ pastCloseB t = true)
  /-- every channel a thread knows is closed or is the current token channel -/
  cur : ∀ (i : Nat) (t : Th) (ch : Nat), ths[i]? = some t → t.b = some ch →
    ch ∈ s.closedCh ∨ IsCur s ths ch
  /-- no lost wake-up: a waiter that probed `false` either still need not be woken, or its
  channel is closed, or a setter holding that very channel is about to close it -/
  probed : ∀ (i : Nat) (t : Th) (off : Int) (ch : Nat), ths[i]? = some t → PastProbe t off →
    t.b = some ch →
    ch ∈ s.closedCh ∨ s.next ≤ off ∨
      ∃ (j : Nat) (u : Th), ths[j]? = some u ∧ SetterMid u ch

/-- The token invariant of a configuration. -/
def TokenInv (c : Cfg) : Prop := TokenInv' c.st c.ths

namespace TokenInv'

variable {s : St} {ths : List Th}

theorem holders_le_one (h : TokenInv' s ths) : holders ths ≤ 1 := by
  cases hb : s.barrier with
  | closed => rw [h.closed hb]; omega
  | empty => rw [h.empty hb]; omega
  | full ch => rw [(h.full ch hb).1]; omega

theorem window_empty (h : TokenInv' s ths) {k : Nat} {u : Th} (hk : ths[k]? = some u)
    (hw : inWindow u = true) : s.barrier = .empty := by
  cases hb : s.barrier with
  | closed => have := holders_zero (h.closed hb) hk; rw [hw] at this; cases this
  | empty => rfl
  | full ch => have := holders_zero (h.full ch hb).1 hk; rw [hw] at this; cases this

theorem unique (h : TokenInv' s ths) {i j : Nat} {t u : Th} (hi : ths[i]? = some t)
    (hj : ths[j]? = some u) (ht : inWindow t = true) (hu : inWindow u = true) : i = j :=
  holders_unique h.holders_le_one hi hj ht hu

end TokenInv'

theorem tokenInv'_init (n : Int) : TokenInv' (initSt n) [] := by
  refine ⟨rfl, ?_, ?_, ?_, ?_, ?_, ?_, ?_, ?_⟩ <;> simp [initSt, holders]

/-! ### Preservation by a thread update `ths.set i t'` -/

theorem Eff.fresh_le {s s' : St} {t t' : Th} (he : Eff s t s' t') : s.fresh ≤ s'.fresh := by
  cases he with
  | loc hbar hcl hfr => omega
  | acquire ch hbar hs => subst hs; exact Nat.le_refl _
  | release ch hbar hs => subst hs; exact Nat.le_refl _
  | closeB ch hnc hs => subst hs; exact Nat.le_refl _
  | releaseNew ch hbar hs => subst hs; exact Nat.le_succ _
  | closeBar ch hbar hs => subst hs; exact Nat.le_refl _

theorem Eff.closed_sub {s s' : St} {t t' : Th} (he : Eff s t s' t') :
    ∀ ch, ch ∈ s.closedCh → ch ∈ s'.closedCh := by
  intro c hc
  cases he with
  | loc hbar hcl hfr => rw [hcl]; exact hc
  | acquire ch hbar hs => subst hs; exact hc
  | release ch hbar hs => subst hs; exact hc
  | closeB ch hnc hs => subst hs; exact List.mem_cons_of_mem _ hc
  | releaseNew ch hbar hs => subst hs; exact hc
  | closeBar ch hbar hs => subst hs; exact hc

theorem Eff.panicked_eq {s s' : St} {t t' : Th} (he : Eff s t s' t') : s'.panicked = s.panicked := by
  cases he with
  | loc hbar hcl hfr hpan => exact hpan
  | acquire ch hbar hs => subst hs; rfl
  | release ch hbar hs => subst hs; rfl
  | closeB ch hnc hs => subst hs; rfl
  | releaseNew ch hbar hs => subst hs; rfl
  | closeBar ch hbar hs => subst hs; rfl

section Update

variable {s s' : St} {ths : List Th} {i : Nat} {t t' : Th}

theorem upd_closedLt (hinv : TokenInv' s ths) (hi : ths[i]? = some t) (he : Eff s t s' t') :
    ∀ ch, ch ∈ s'.closedCh → ch < s'.fresh := by
  intro c hc
  cases he with
  | loc hbar hcl hfr => rw [hcl] at hc; rw [hfr]; exact hinv.closedLt c hc
  | acquire ch hbar hs => subst hs; exact hinv.closedLt c hc
  | release ch hbar hs => subst hs; exact hinv.closedLt c hc
  | closeB ch hnc hs hw hw' hb =>
    subst hs
    rcases List.mem_cons.mp hc with rfl | hc
    · exact (hinv.thInv i t hi).blt hb
    · exact hinv.closedLt c hc
  | releaseNew ch hbar hs => subst hs; exact Nat.lt_succ_of_lt (hinv.closedLt c hc)
  | closeBar ch hbar hs => subst hs; exact hinv.closedLt c hc

/-- The barrier/holder-count part. -/
theorem upd_count (hinv : TokenInv' s ths) (hi : ths[i]? = some t) (he : Eff s t s' t') :
    (∀ ch, s'.barrier = .full ch →
        holders (ths.set i t') = 0 ∧ ch ∉ s'.closedCh ∧ ch < s'.fresh) ∧
    (s'.barrier = .empty → holders (ths.set i t') = 1) ∧
    (s'.barrier = .closed → holders (ths.set i t') = 0) := by
  have hh := holders_set (t' := t') hi
  cases he with
  | loc hbar hcl hfr hpan hw hb hp =>
    rw [hw] at hh
    have he : holders (ths.set i t') = holders ths := by omega
    rw [hbar, hcl, hfr, he]
    exact ⟨hinv.full, hinv.empty, hinv.closed⟩
  | acquire ch hbar hs hw hw' hb' hp' =>
    subst hs
    rw [hw, hw', (hinv.full ch hbar).1] at hh
    refine ⟨?_, ?_, ?_⟩
    · intro c hc; cases hc
    · intro _; simpa using hh
    · intro hc; cases hc
  | release ch hbar hs hw hw' hb hb' hp =>
    subst hs
    rw [hw, hw', hinv.empty hbar] at hh
    refine ⟨?_, ?_, ?_⟩
    · intro c hc
      have hcc : ch = c := by simpa using hc
      subst hcc
      refine ⟨by simpa using hh, ?_, (hinv.thInv i t hi).blt hb⟩
      intro hmem
      have := (hinv.holder i t hi hw _ hb).mp hmem
      rw [hp] at this
      cases this
    · intro hc; cases hc
    · intro hc; cases hc
  | closeB ch hnc hs hw hw' hb hb' hp' =>
    subst hs
    rw [hw, hw'] at hh
    have he : holders (ths.set i t') = holders ths := by omega
    have hemp := hinv.window_empty hi hw
    refine ⟨?_, ?_, ?_⟩
    · intro c hc
      have hc' : s.barrier = .full c := hc
      rw [hemp] at hc'; cases hc'
    · intro _; rw [he]; exact hinv.empty hemp
    · intro hc
      have hc' : s.barrier = .closed := hc
      rw [hemp] at hc'; cases hc'
  | releaseNew ch hbar hs hw hw' hb hb' hp =>
    subst hs
    rw [hw, hw', hinv.empty hbar] at hh
    refine ⟨?_, ?_, ?_⟩
    · intro c hc
      have hcc : s.fresh = c := by simpa using hc
      subst hcc
      refine ⟨by simpa using hh, ?_, Nat.lt_succ_self _⟩
      intro hmem
      exact Nat.lt_irrefl _ (hinv.closedLt _ hmem)
    · intro hc; cases hc
    · intro hc; cases hc
  | closeBar ch hbar hs hw hw' hb hb' hp =>
    subst hs
    rw [hw, hw', hinv.empty hbar] at hh
    refine ⟨?_, ?_, ?_⟩
    · intro c hc; cases hc
    · intro hc; cases hc
    · intro _; simpa using hh

theorem upd_holder (hinv : TokenInv' s ths) (hi : ths[i]? = some t) (he : Eff s t s' t') :
    ∀ (k : Nat) (u : Th), (ths.set i t')[k]? = some u → inWindow u = true →
      ∀ ch, u.b = some ch → (ch ∈ s'.closedCh ↔ pastCloseB u = true) := by
  intro k u hk hu c hc
  rcases get_set_cases hk with ⟨rfl, rfl⟩ | ⟨hne, hk⟩
  · -- the stepping thread itself
    cases he with
    | loc hbar hcl hfr hpan hw hb hp =>
      rw [hcl, hp]
      rw [hw] at hu
      rw [hb] at hc
      exact hinv.holder _ t hi hu c hc
    | acquire ch hbar hs hw hw' hb' hp' =>
      subst hs
      rw [hb'] at hc
      have hcc : ch = c := by simpa using hc
      subst hcc
      rw [hp']
      constructor
      · intro hmem; exact absurd hmem (hinv.full ch hbar).2.1
      · intro h; cases h
    | release ch hbar hs hw hw' => rw [hw'] at hu; cases hu
    | closeB ch hnc hs hw hw' hb hb' hp' =>
      subst hs
      rw [hb'] at hc
      have hcc : ch = c := by simpa using hc
      subst hcc
      rw [hp']
      constructor
      · intro _; rfl
      · intro _; exact List.mem_cons_self
    | releaseNew ch hbar hs hw hw' => rw [hw'] at hu; cases hu
    | closeBar ch hbar hs hw hw' => rw [hw'] at hu; cases hu
  · -- another thread in its window
    have hold := hinv.holder k u hk hu c hc
    cases he with
    | loc hbar hcl hfr => rw [hcl]; exact hold
    | acquire ch hbar hs =>
      have := holders_zero (hinv.full ch hbar).1 hk
      rw [hu] at this; cases this
    | release ch hbar hs hw => exact absurd (hinv.unique hk hi hu hw) hne
    | closeB ch hnc hs hw => exact absurd (hinv.unique hk hi hu hw) hne
    | releaseNew ch hbar hs hw => exact absurd (hinv.unique hk hi hu hw) hne
    | closeBar ch hbar hs hw => exact absurd (hinv.unique hk hi hu hw) hne

/-- The current token channel stays current unless it gets closed. -/
theorem upd_isCur (hinv : TokenInv' s ths) (hi : ths[i]? = some t) (he : Eff s t s' t')
    {c : Nat} (hc : IsCur s ths c) : c ∈ s'.closedCh ∨ IsCur s' (ths.set i t') c := by
  have hself := get_set_self (a := t') hi
  cases he with
  | loc hbar hcl hfr hpan hw hb hp =>
    right
    rcases hc with hc | ⟨j, u, hj, hu, hub⟩
    · left; rw [hbar]; exact hc
    · right
      by_cases hji : j = i
      · subst hji
        rw [hi] at hj
        cases hj
        exact ⟨j, t', hself, by rw [hw]; exact hu, by rw [hb]; exact hub⟩
      · exact ⟨j, u, get_set_ne hji hj, hu, hub⟩
  | acquire ch hbar hs hw hw' hb' hp' =>
    right; right
    rcases hc with hc | ⟨j, u, hj, hu, hub⟩
    · rw [hbar] at hc
      have hcc : ch = c := by simpa using hc
      subst hcc
      exact ⟨i, t', hself, hw', hb'⟩
    · have := holders_zero (hinv.full ch hbar).1 hj
      rw [hu] at this; cases this
  | release ch hbar hs hw hw' hb hb' hp =>
    subst hs
    right; left
    rcases hc with hc | ⟨j, u, hj, hu, hub⟩
    · rw [hbar] at hc; cases hc
    · have hji := hinv.unique hj hi hu hw
      subst hji
      rw [hi] at hj
      cases hj
      rw [hb] at hub
      have hcc : ch = c := by simpa using hub
      subst hcc
      rfl
  | closeB ch hnc hs hw hw' hb hb' hp' =>
    subst hs
    left
    rcases hc with hc | ⟨j, u, hj, hu, hub⟩
    · rw [hinv.window_empty hi hw] at hc; cases hc
    · have hji := hinv.unique hj hi hu hw
      subst hji
      rw [hi] at hj
      cases hj
      rw [hb] at hub
      have hcc : ch = c := by simpa using hub
      subst hcc
      exact List.mem_cons_self
  | releaseNew ch hbar hs hw hw' hb hb' hp =>
    subst hs
    left
    rcases hc with hc | ⟨j, u, hj, hu, hub⟩
    · rw [hbar] at hc; cases hc
    · have hji := hinv.unique hj hi hu hw
      subst hji
      rw [hi] at hj
      cases hj
      exact (hinv.holder _ t hi hw c hub).mpr hp
  | closeBar ch hbar hs hw hw' hb hb' hp =>
    subst hs
    left
    rcases hc with hc | ⟨j, u, hj, hu, hub⟩
    · rw [hbar] at hc; cases hc
    · have hji := hinv.unique hj hi hu hw
      subst hji
      rw [hi] at hj
      cases hj
      exact (hinv.holder _ t hi hw c hub).mpr hp

theorem upd_cur (hinv : TokenInv' s ths) (hi : ths[i]? = some t) (he : Eff s t s' t') :
    ∀ (k : Nat) (u : Th) (ch : Nat), (ths.set i t')[k]? = some u → u.b = some ch →
      ch ∈ s'.closedCh ∨ IsCur s' (ths.set i t') ch := by
  intro k u c hk hc
  have hold : c ∈ s.closedCh ∨ IsCur s ths c := by
    rcases get_set_cases hk with ⟨rfl, rfl⟩ | ⟨hne, hk⟩
    · cases he with
      | loc hbar hcl hfr hpan hw hb hp => rw [hb] at hc; exact hinv.cur _ t c hi hc
      | acquire ch hbar hs hw hw' hb' hp' =>
        rw [hb'] at hc
        have hcc : ch = c := by simpa using hc
        subst hcc
        exact Or.inr (Or.inl hbar)
      | release ch hbar hs hw hw' hb hb' hp =>
        rw [hb'] at hc
        have hcc : ch = c := by simpa using hc
        subst hcc
        exact hinv.cur _ t _ hi hb
      | closeB ch hnc hs hw hw' hb hb' hp' =>
        rw [hb'] at hc
        have hcc : ch = c := by simpa using hc
        subst hcc
        exact hinv.cur _ t _ hi hb
      | releaseNew ch hbar hs hw hw' hb hb' hp =>
        rw [hb'] at hc
        have hcc : ch = c := by simpa using hc
        subst hcc
        exact hinv.cur _ t _ hi hb
      | closeBar ch hbar hs hw hw' hb hb' hp =>
        rw [hb'] at hc
        have hcc : ch = c := by simpa using hc
        subst hcc
        exact hinv.cur _ t _ hi hb
    · exact hinv.cur k u c hk hc
  rcases hold with h | h
  · exact Or.inl (he.closed_sub c h)
  · exact upd_isCur hinv hi he h

/-- What the no-lost-wakeup part of the invariant needs to know about a thread update. -/
structure ProbeEff (s : St) (t : Th) (s' : St) (t' : Th) : Prop where
  nextChange : s'.next ≠ s.next → inWindow t = true ∧ ∀ ch, t.b = some ch → SetterMid t' ch
  setterMid : ∀ ch, SetterMid t ch → SetterMid t' ch ∨ ch ∈ s'.closedCh
  pastProbe : ∀ off ch, PastProbe t' off → t'.b = some ch →
    (PastProbe t off ∧ t.b = some ch) ∨ s'.next ≤ off

/-- An old thread that probed `false` keeps its guarantee across the update. -/
theorem upd_probed_old (hinv : TokenInv' s ths) (hi : ths[i]? = some t) (he : Eff s t s' t')
    (hpe : ProbeEff s t s' t') {k : Nat} {u : Th} {off : Int} {c : Nat}
    (hk : ths[k]? = some u) (hp : PastProbe u off) (hc : u.b = some c) :
    c ∈ s'.closedCh ∨ s'.next ≤ off ∨
      ∃ (j : Nat) (v : Th), (ths.set i t')[j]? = some v ∧ SetterMid v c := by
  have hself := get_set_self (a := t') hi
  rcases hinv.probed k u off c hk hp hc with h | h | ⟨j, v, hj, hv⟩
  · exact Or.inl (he.closed_sub c h)
  · by_cases hn : s'.next = s.next
    · right; left; rw [hn]; exact h
    · obtain ⟨hw, hmid⟩ := hpe.nextChange hn
      -- the stepping thread is the token holder, so `u`'s channel is its channel (or closed)
      rcases hinv.cur k u c hk hc with hcl | hcur | ⟨j, v, hj, hv, hvb⟩
      · exact Or.inl (he.closed_sub c hcl)
      · rw [hinv.window_empty hi hw] at hcur; cases hcur
      · have hji := hinv.unique hj hi hv hw
        subst hji
        rw [hi] at hj
        cases hj
        exact Or.inr (Or.inr ⟨j, t', hself, hmid c hvb⟩)
  · by_cases hji : j = i
    · subst hji
      rw [hi] at hj
      cases hj
      rcases hpe.setterMid c hv with h | h
      · exact Or.inr (Or.inr ⟨j, t', hself, h⟩)
      · exact Or.inl h
    · exact Or.inr (Or.inr ⟨j, v, get_set_ne hji hj, hv⟩)

theorem upd_probed (hinv : TokenInv' s ths) (hi : ths[i]? = some t) (he : Eff s t s' t')
    (hpe : ProbeEff s t s' t') :
    ∀ (k : Nat) (u : Th) (off : Int) (ch : Nat), (ths.set i t')[k]? = some u → PastProbe u off →
      u.b = some ch →
      ch ∈ s'.closedCh ∨ s'.next ≤ off ∨
        ∃ (j : Nat) (v : Th), (ths.set i t')[j]? = some v ∧ SetterMid v ch := by
  intro k u off c hk hp hc
  rcases get_set_cases hk with ⟨rfl, rfl⟩ | ⟨hne, hk⟩
  · rcases hpe.pastProbe off c hp hc with ⟨hp', hc'⟩ | h
    · exact upd_probed_old hinv hi he hpe hi hp' hc'
    · exact Or.inr (Or.inl h)
  · exact upd_probed_old hinv hi he hpe hk hp hc

/-- Preservation of the invariant by any thread update satisfying the effect summaries. -/
theorem TokenInv'.update (hinv : TokenInv' s ths) (hi : ths[i]? = some t) (he : Eff s t s' t')
    (hth : ThInv s' t') (hpe : ProbeEff s t s' t') : TokenInv' s' (ths.set i t') := by
  obtain ⟨hfull, hempty, hclosed⟩ := upd_count hinv hi he
  refine ⟨?_, ?_, upd_closedLt hinv hi he, hfull, hempty, hclosed, upd_holder hinv hi he,
    upd_cur hinv hi he, upd_probed hinv hi he hpe⟩
  · rw [he.panicked_eq]; exact hinv.noPanic
  · intro k u hk
    rcases get_set_cases hk with ⟨rfl, rfl⟩ | ⟨hne, hk⟩
    · exact hth
    · exact (hinv.thInv k u hk).mono he.fresh_le

end Update

/-! ### The three kinds of events -/

theorem TokenInv'.step {s s' : St} {ths : List Th} {i : Nat} {t t' : Th} (hinv : TokenInv' s ths)
    (hi : ths[i]? = some t) (hst : stepTh s t = some (s', t')) : TokenInv' s' (ths.set i t') := by
  have hS := stepTh_spec hst
  have hti := hinv.thInv i t hi
  have he : Eff s t s' t' :=
    hS.eff hti (fun hw => ⟨hinv.window_empty hi hw, hinv.holder i t hi hw⟩)
  have hth : ThInv s' t' := hS.thInv hti (fun ch hb => (hinv.full ch hb).2.2)
  exact hinv.update hi he hth
    ⟨hS.next_change hti, fun ch hm => hS.setterMid hti hm, fun off ch hp hb => hS.pastProbe hp hb⟩

theorem TokenInv'.cancel {s : St} {ths : List Th} {i : Nat} {t : Th} (hinv : TokenInv' s ths)
    (hi : ths[i]? = some t) : TokenInv' s (ths.set i { t with ctxDone := true }) := by
  have he : Eff s t s { t with ctxDone := true } := Eff.loc rfl rfl rfl rfl rfl rfl rfl
  exact hinv.update hi he (hinv.thInv i t hi).cancel
    ⟨fun h => absurd rfl h, fun ch hm => Or.inl hm, fun off ch hp hb => Or.inl ⟨hp, hb⟩⟩

theorem inWindow_fresh (k : Kind) : inWindow { kind := k } = false := by
  cases k <;> rfl

theorem TokenInv'.spawn {s : St} {ths : List Th} (hinv : TokenInv' s ths) (k : Kind) :
    TokenInv' s (ths ++ [{ kind := k }]) := by
  have hcnt : holders (ths ++ [{ kind := k }]) = holders ths := by
    rw [holders_append, inWindow_fresh]; simp
  have hcur : ∀ ch, IsCur s ths ch → IsCur s (ths ++ [{ kind := k }]) ch := by
    intro ch h
    rcases h with h | ⟨j, u, hj, hu, hub⟩
    · exact Or.inl h
    · exact Or.inr ⟨j, u, get_append_left hj, hu, hub⟩
  refine ⟨hinv.noPanic, ?_, hinv.closedLt, ?_, ?_, ?_, ?_, ?_, ?_⟩
  · intro j u hj
    rcases get_append_cases hj with hj | ⟨_, rfl⟩
    · exact hinv.thInv j u hj
    · exact ThInv.fresh s k
  · intro ch hb; rw [hcnt]; exact hinv.full ch hb
  · intro hb; rw [hcnt]; exact hinv.empty hb
  · intro hb; rw [hcnt]; exact hinv.closed hb
  · intro j u hj hu
    rcases get_append_cases hj with hj | ⟨_, rfl⟩
    · exact hinv.holder j u hj hu
    · rw [inWindow_fresh] at hu; cases hu
  · intro j u ch hj hb
    rcases get_append_cases hj with hj | ⟨_, rfl⟩
    · rcases hinv.cur j u ch hj hb with h | h
      · exact Or.inl h
      · exact Or.inr (hcur ch h)
    · cases hb
  · intro j u off ch hj hp hb
    rcases get_append_cases hj with hj | ⟨_, rfl⟩
    · rcases hinv.probed j u off ch hj hp hb with h | h | ⟨j', v, hj', hv⟩
      · exact Or.inl h
      · exact Or.inr (Or.inl h)
      · exact Or.inr (Or.inr ⟨j', v, get_append_left hj', hv⟩)
    · cases hb

/-! ### Configurations -/

/-- Initial configuration: `next = n`, barrier holds channel 0, no threads. -/
def init (n : Int) : Cfg := ⟨initSt n, []⟩

theorem tokenInv_init (n : Int) : TokenInv (init n) := tokenInv'_init n

theorem stepCfg_step_none {c : Cfg} {i : Nat} (hi : c.ths[i]? = none) :
    stepCfg c (.step i) = c := by
  simp [stepCfg, hi]

theorem stepCfg_step_blocked {c : Cfg} {i : Nat} {t : Th} (hi : c.ths[i]? = some t)
    (hst : stepTh c.st t = none) : stepCfg c (.step i) = c := by
  simp [stepCfg, hi, hst]

theorem stepCfg_step_some {c : Cfg} {i : Nat} {t t' : Th} {s' : St} (hi : c.ths[i]? = some t)
    (hst : stepTh c.st t = some (s', t')) :
    stepCfg c (.step i) = ⟨s', c.ths.set i t'⟩ := by
  simp [stepCfg, hi, hst]

theorem stepCfg_cancel_none {c : Cfg} {i : Nat} (hi : c.ths[i]? = none) :
    stepCfg c (.cancel i) = c := by
  simp [stepCfg, hi]

theorem stepCfg_cancel_some {c : Cfg} {i : Nat} {t : Th} (hi : c.ths[i]? = some t) :
    stepCfg c (.cancel i) = ⟨c.st, c.ths.set i { t with ctxDone := true }⟩ := by
  simp [stepCfg, hi]

theorem stepCfg_spawn (c : Cfg) (k : Kind) :
    stepCfg c (.spawn k) = ⟨c.st, c.ths ++ [{ kind := k }]⟩ := rfl

theorem tokenInv_step (c : Cfg) (e : Ev) (h : TokenInv c) : TokenInv (stepCfg c e) := by
  cases e with
  | step i =>
    cases hi : c.ths[i]? with
    | none => rw [stepCfg_step_none hi]; exact h
    | some t =>
      cases hst : stepTh c.st t with
      | none => rw [stepCfg_step_blocked hi hst]; exact h
      | some p =>
        obtain ⟨s', t'⟩ := p
        rw [stepCfg_step_some hi hst]
        exact TokenInv'.step h hi hst
  | cancel i =>
    cases hi : c.ths[i]? with
    | none => rw [stepCfg_cancel_none hi]; exact h
    | some t => rw [stepCfg_cancel_some hi]; exact TokenInv'.cancel h hi
  | spawn k => exact TokenInv'.spawn h k

theorem tokenInv_run_from (c : Cfg) (evs : List Ev) (h : TokenInv c) : TokenInv (run c evs) := by
  induction evs generalizing c with
  | nil => exact h
  | cons e rest ih => exact ih _ (tokenInv_step c e h)

theorem tokenInv_run (n : Int) (evs : List Ev) : TokenInv (run (init n) evs) :=
  tokenInv_run_from _ _ (tokenInv_init n)

end Klev.Notify
