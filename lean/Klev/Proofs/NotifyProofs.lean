/-
C18 — the notifier of `pkg/notify`: safety of the token discipline, no panic, no deadlock,
no lost wake-up, no spurious wake-up, and the three sequential corner cases.

All "reachable" theorems quantify over every event list from `init n`: any number of
`Wait`/`Set`/`Close` calls, any interleaving, cancellation at any time.
-/
import Klev.Proofs.NotifyInv

namespace Klev.Notify

/-! ## 1. The token invariant and its consequences -/

/-- (a) No send on a closed channel, no close of a closed channel — never. -/
theorem no_panic (n : Int) (evs : List Ev) : (run (init n) evs).st.panicked = false :=
  (tokenInv_run n evs).noPanic

/-- (b) At most one thread holds the token. -/
theorem token_unique {c : Cfg} (h : TokenInv c) {i j : Nat} {t u : Th}
    (hi : c.ths[i]? = some t) (hj : c.ths[j]? = some u)
    (ht : inWindow t = true) (hu : inWindow u = true) : i = j :=
  TokenInv'.unique h hi hj ht hu

/-- (b) Barrier full: nobody holds the token; the channel in it is open and allocated. -/
theorem token_full {c : Cfg} (h : TokenInv c) {ch : Nat} (hb : c.st.barrier = .full ch) :
    (∀ (i : Nat) (t : Th), c.ths[i]? = some t → inWindow t = false) ∧
      ch ∉ c.st.closedCh ∧ ch < c.st.fresh :=
  ⟨fun _ _ hi => holders_zero (h.full ch hb).1 hi, (h.full ch hb).2⟩

theorem inWindow_ok {t : Th} (hw : inWindow t = true) : t.ok = true := by
  cases hok : t.ok
  · simp [inWindow, hok] at hw
  · rfl

theorem inWindow_not_done {t : Th} (hw : inWindow t = true) : t.done = false := by
  cases hd : t.done
  · rfl
  · simp [inWindow, hd] at hw

theorem ThInv.b_of_ok {s : St} {t : Th} (h : ThInv s t) (hok : t.ok = true) :
    ∃ ch, t.b = some ch := by
  have := h.ok_eq
  rw [hok] at this
  cases hb : t.b with
  | none => rw [hb] at this; cases this
  | some ch => exact ⟨ch, rfl⟩

/-- (b) Barrier empty: exactly one holder; its local `b` is an allocated channel which is
closed iff the holder is a `Set`/`Close` thread past its `closeB`. -/
theorem token_empty {c : Cfg} (h : TokenInv c) (hb : c.st.barrier = .empty) :
    ∃ (i : Nat) (t : Th) (ch : Nat), c.ths[i]? = some t ∧ inWindow t = true ∧ t.b = some ch ∧
      ch < c.st.fresh ∧ (ch ∈ c.st.closedCh ↔ pastCloseB t = true) ∧
      ∀ (j : Nat) (u : Th), c.ths[j]? = some u → inWindow u = true → j = i := by
  have h1 := h.empty hb
  obtain ⟨i, t, hi, hw⟩ := holders_pos (ths := c.ths) (by omega)
  have hti := h.thInv i t hi
  obtain ⟨ch, hch⟩ := hti.b_of_ok (inWindow_ok hw)
  exact ⟨i, t, ch, hi, hw, hch, hti.blt hch, h.holder i t hi hw ch hch,
    fun j u hj hu => token_unique h hj hi hu hw⟩

/-- (b) Barrier closed: nobody holds the token. -/
theorem token_closed {c : Cfg} (h : TokenInv c) (hb : c.st.barrier = .closed) :
    ∀ (i : Nat) (t : Th), c.ths[i]? = some t → inWindow t = false :=
  fun _ _ hi => holders_zero (h.closed hb) hi

/-- (b) A thread in its window sees an empty barrier. -/
theorem token_window {c : Cfg} (h : TokenInv c) {i : Nat} {t : Th} (hi : c.ths[i]? = some t)
    (hw : inWindow t = true) : c.st.barrier = .empty :=
  TokenInv'.window_empty h hi hw

/-- (c) Every thread-local channel was allocated. -/
theorem local_lt_fresh {c : Cfg} (h : TokenInv c) {i : Nat} {t : Th} {ch : Nat}
    (hi : c.ths[i]? = some t) (hb : t.b = some ch) : ch < c.st.fresh :=
  (h.thInv i t hi).blt hb

/-- (c), (d) One event: `next` and `fresh` only grow, closed channels stay closed. -/
theorem stepCfg_mono (c : Cfg) (e : Ev) :
    c.st.next ≤ (stepCfg c e).st.next ∧ c.st.fresh ≤ (stepCfg c e).st.fresh ∧
      ∀ ch, ch ∈ c.st.closedCh → ch ∈ (stepCfg c e).st.closedCh := by
  have hrefl : c.st.next ≤ c.st.next ∧ c.st.fresh ≤ c.st.fresh ∧
      ∀ ch, ch ∈ c.st.closedCh → ch ∈ c.st.closedCh :=
    ⟨Int.le_refl _, Nat.le_refl _, fun _ h => h⟩
  cases e with
  | step i =>
    cases hi : c.ths[i]? with
    | none => rw [stepCfg_step_none hi]; exact hrefl
    | some t =>
      cases hst : stepTh c.st t with
      | none => rw [stepCfg_step_blocked hi hst]; exact hrefl
      | some p =>
        obtain ⟨s', t'⟩ := p
        rw [stepCfg_step_some hi hst]
        exact (stepTh_spec hst).mono
  | cancel i =>
    cases hi : c.ths[i]? with
    | none => rw [stepCfg_cancel_none hi]; exact hrefl
    | some t => rw [stepCfg_cancel_some hi]; exact hrefl
  | spawn k => exact hrefl

theorem run_mono (c : Cfg) (evs : List Ev) :
    c.st.next ≤ (run c evs).st.next ∧ c.st.fresh ≤ (run c evs).st.fresh ∧
      ∀ ch, ch ∈ c.st.closedCh → ch ∈ (run c evs).st.closedCh := by
  induction evs generalizing c with
  | nil => exact ⟨Int.le_refl _, Nat.le_refl _, fun _ h => h⟩
  | cons e rest ih =>
    obtain ⟨a1, a2, a3⟩ := stepCfg_mono c e
    obtain ⟨b1, b2, b3⟩ := ih (stepCfg c e)
    exact ⟨Int.le_trans a1 b1, Nat.le_trans a2 b2, fun ch h => b3 ch (a3 ch h)⟩

/-- (d) `next` never decreases, along any run from any configuration. -/
theorem next_monotone_run (c : Cfg) (evs : List Ev) : c.st.next ≤ (run c evs).st.next :=
  (run_mono c evs).1

theorem run_append (c : Cfg) (evs evs' : List Ev) : run c (evs ++ evs') = run (run c evs) evs' := by
  induction evs generalizing c with
  | nil => rfl
  | cons e rest ih => exact ih _

/-- (d) for reachable configurations: a later configuration has a larger-or-equal `next`. -/
theorem next_monotone_reach (n : Int) (evs evs' : List Ev) :
    (run (init n) evs).st.next ≤ (run (init n) (evs ++ evs')).st.next := by
  rw [run_append]; exact next_monotone_run _ _

/-- (c) `fresh` only grows. -/
theorem fresh_monotone_run (c : Cfg) (evs : List Ev) : c.st.fresh ≤ (run c evs).st.fresh :=
  (run_mono c evs).2.1

/-- (c) A closed signal channel stays closed. -/
theorem closed_monotone_run (c : Cfg) (evs : List Ev) {ch : Nat} (h : ch ∈ c.st.closedCh) :
    ch ∈ (run c evs).st.closedCh :=
  (run_mono c evs).2.2 ch h

/-! ## 4. Who wakes a waiter -/

/-- A signal channel becomes closed only by the `closeB` instruction of a `Set`/`Close`
thread whose local `b` is that channel: a parked waiter is never released for nothing. -/
theorem woken_only_by_set_close (c : Cfg) (e : Ev) (ch : Nat)
    (hin : ch ∈ (stepCfg c e).st.closedCh) (hnot : ch ∉ c.st.closedCh) :
    ∃ (i : Nat) (t : Th), e = .step i ∧ c.ths[i]? = some t ∧
      (t.kind = .close ∨ ∃ n, t.kind = .set n) ∧
      (progOf t.kind)[t.pc]? = some .closeB ∧ t.b = some ch ∧ t.done = false := by
  cases e with
  | step i =>
    cases hi : c.ths[i]? with
    | none => rw [stepCfg_step_none hi] at hin; exact absurd hin hnot
    | some t =>
      cases hst : stepTh c.st t with
      | none => rw [stepCfg_step_blocked hi hst] at hin; exact absurd hin hnot
      | some p =>
        obtain ⟨s', t'⟩ := p
        rw [stepCfg_step_some hi hst] at hin
        have hS := stepTh_spec hst
        obtain ⟨hk, hpc, hb⟩ := hS.closed_change hin hnot
        exact ⟨i, t, rfl, hi, hk, hpc, hb, hS.not_done⟩
  | cancel i =>
    cases hi : c.ths[i]? with
    | none => rw [stepCfg_cancel_none hi] at hin; exact absurd hin hnot
    | some t => rw [stepCfg_cancel_some hi] at hin; exact absurd hin hnot
  | spawn k => exact absurd hin hnot

/-- A waiter at `selectWait` can move iff its channel is closed or its context ended. -/
theorem parked_enabled_iff (s : St) (t : Th) (off : Int) (ch : Nat) (hk : t.kind = .wait off)
    (hpc : t.pc = 6) (hb : t.b = some ch) (hd : t.done = false) :
    (stepTh s t).isSome = true ↔ ch ∈ s.closedCh ∨ t.ctxDone = true := by
  obtain ⟨kind, pc, b, ok, upd, cd, res⟩ := t
  simp only at hk hpc hb
  subst hk hpc hb
  cases res with
  | some r => simp [Th.done] at hd
  | none =>
    simp only [stepTh, Th.done, progOf, waitProg]
    by_cases hc : ch ∈ s.closedCh <;> cases cd <;> simp [hc]

/-- ... and when it moves it returns `nil` exactly when its channel is closed. -/
theorem parked_step (s : St) (t : Th) (off : Int) (ch : Nat) (hk : t.kind = .wait off)
    (hpc : t.pc = 6) (hb : t.b = some ch) (hd : t.done = false) :
    stepTh s t =
      if ch ∈ s.closedCh then some (s, { t with res := some .nil })
      else if t.ctxDone = true then some (s, { t with res := some .ctxErr })
      else none := by
  obtain ⟨kind, pc, b, ok, upd, cd, res⟩ := t
  simp only at hk hpc hb
  subst hk hpc hb
  cases res with
  | some r => simp [Th.done] at hd
  | none => simp [stepTh, Th.done, progOf, waitProg]

/-! ## 5. Sequential corner cases -/

/-- A `Wait(off)` that starts when `next > off` returns `nil` in its first step and does not
touch the shared state. -/
theorem immediate (s : St) (t : Th) (off : Int) (hk : t.kind = .wait off) (hpc : t.pc = 0)
    (hd : t.done = false) (h : s.next > off) :
    stepTh s t = some (s, { t with res := some .nil }) := by
  obtain ⟨kind, pc, b, ok, upd, cd, res⟩ := t
  simp only at hk hpc
  subst hk hpc
  cases res with
  | some r => simp [Th.done] at hd
  | none =>
    have h' : off < s.next := h
    simp [stepTh, Th.done, progOf, waitProg, h']

/-- The same for a freshly spawned call, at the level of configurations. -/
theorem immediate_cfg (c : Cfg) (i : Nat) (off : Int) (hi : c.ths[i]? = some { kind := .wait off })
    (h : c.st.next > off) :
    stepCfg c (.step i) = ⟨c.st, c.ths.set i { kind := .wait off, res := some .nil }⟩ :=
  stepCfg_step_some hi (immediate c.st _ off rfl rfl rfl h)

/-- `Wait` after `Close` (and not already satisfied) never blocks: run alone it returns
`ErrClosed` in three steps and leaves the shared state alone. -/
theorem wait_after_close_fails (s : St) (off : Int) (hb : s.barrier = .closed)
    (hn : ¬ s.next > off) :
    run ⟨s, [{ kind := .wait off }]⟩ [.step 0, .step 0, .step 0]
      = ⟨s, [{ kind := .wait off, pc := 2, res := some .errClosed }]⟩ := by
  have hn' : ¬ off < s.next := hn
  simp [run, stepCfg, stepTh, Th.done, progOf, waitProg, hb, hn']

/-- A parked waiter whose context ended (and whose channel is still open) returns `ctx.Err()`. -/
theorem cancel_returns (s : St) (t : Th) (off : Int) (ch : Nat) (hk : t.kind = .wait off)
    (hpc : t.pc = 6) (hb : t.b = some ch) (hd : t.done = false) (hc : t.ctxDone = true)
    (hnc : ch ∉ s.closedCh) : stepTh s t = some (s, { t with res := some .ctxErr }) := by
  rw [parked_step s t off ch hk hpc hb hd, if_neg hnc, if_pos hc]

/-! ## 3. No lost wake-up -/

theorem enabled_eq {c : Cfg} {i : Nat} {t : Th} (hi : c.ths[i]? = some t) :
    enabled c i = (stepTh c.st t).isSome := by
  simp [enabled, hi]

/-- The token holder itself is never blocked. -/
theorem holder_enabled' {c : Cfg} (hinv : TokenInv c) {i : Nat} {t : Th}
    (hi : c.ths[i]? = some t) (hw : inWindow t = true) : enabled c i = true := by
  rw [enabled_eq hi]
  exact inWindow_enabled hw (token_window hinv hi hw)

/-- The auxiliary invariant: every channel a thread knows is closed or is the current token
channel (in the barrier, or in the local `b` of the unique token holder). -/
theorem channel_current_or_closed (n : Int) (evs : List Ev) (i : Nat) (t : Th) (ch : Nat)
    (hi : (run (init n) evs).ths[i]? = some t) (hb : t.b = some ch) :
    ch ∈ (run (init n) evs).st.closedCh ∨ (run (init n) evs).st.barrier = .full ch ∨
      ∃ (j : Nat) (u : Th), (run (init n) evs).ths[j]? = some u ∧ inWindow u = true ∧
        u.b = some ch :=
  (tokenInv_run n evs).cur i t ch hi hb

/-- The no-lost-wakeup core. A waiter `Wait(off)` that has executed its probe with
`updated = false` (pc ∈ {4,5,6}) and holds channel `ch`: if a `Set` moved `next` past `off`
after the probe, then `ch` is already closed, or the setter that holds `ch` has not yet
executed its `close(b)` — and will, since the token holder is never blocked. -/
theorem parked_not_passed (n : Int) (evs : List Ev) (i : Nat) (t : Th) (off : Int) (ch : Nat)
    (hi : (run (init n) evs).ths[i]? = some t) (hk : t.kind = .wait off)
    (hpc : t.pc = 4 ∨ t.pc = 5 ∨ t.pc = 6) (hd : t.done = false) (hu : t.upd = false)
    (hb : t.b = some ch) :
    ch ∈ (run (init n) evs).st.closedCh ∨ (run (init n) evs).st.next ≤ off ∨
      ∃ (j : Nat) (t' : Th), (run (init n) evs).ths[j]? = some t' ∧ (∃ m, t'.kind = .set m) ∧
        t'.b = some ch ∧ (t'.pc = 1 ∨ t'.pc = 2 ∨ t'.pc = 3) ∧ t'.done = false := by
  have hp : PastProbe t off := ⟨hk, by omega, hd, hu⟩
  rcases (tokenInv_run n evs).probed i t off ch hi hp hb with h | h | ⟨j, u, hj, hm⟩
  · exact Or.inl h
  · exact Or.inr (Or.inl h)
  · obtain ⟨hkind, hub, h1, h3, hud⟩ := hm
    exact Or.inr (Or.inr ⟨j, u, hj, hkind, hub, by omega, hud⟩)

/-- No lost wake-up, quiescent form: if no `Set`/`Close` call is mid-flight and `next` has
passed `off`, a waiter parked at `selectWait` is enabled (its channel is closed, so its next
step returns `nil`). -/
theorem no_lost_wakeup (n : Int) (evs : List Ev) (i : Nat) (t : Th) (off : Int)
    (hi : (run (init n) evs).ths[i]? = some t) (hk : t.kind = .wait off) (hpc : t.pc = 6)
    (hd : t.done = false)
    (hquiet : ∀ (j : Nat) (u : Th), (run (init n) evs).ths[j]? = some u → u.done = false →
      (∃ o, u.kind = .wait o) ∨ u.pc = 0)
    (hnext : (run (init n) evs).st.next > off) :
    enabled (run (init n) evs) i = true ∧
      ∃ ch, t.b = some ch ∧ ch ∈ (run (init n) evs).st.closedCh ∧
        stepTh (run (init n) evs).st t = some ((run (init n) evs).st, { t with res := some .nil }) := by
  have hinv := tokenInv_run n evs
  have hti := hinv.thInv i t hi
  have hok : t.ok = true := hti.ok_of_post (by rw [hk, hpc]; simp [recvPc])
  obtain ⟨ch, hb⟩ := hti.b_of_ok hok
  have hu := hti.upd_parked hk hpc
  have hcl : ch ∈ (run (init n) evs).st.closedCh := by
    rcases parked_not_passed n evs i t off ch hi hk (Or.inr (Or.inr hpc)) hd hu hb with
      h | h | ⟨j, u, hj, ⟨m, hm⟩, _, hupc, hud⟩
    · exact h
    · exact absurd hnext (Int.not_lt.mpr h)
    · rcases hquiet j u hj hud with ⟨o, ho⟩ | h0
      · rw [hm] at ho; cases ho
      · omega
  have hstep := parked_step (run (init n) evs).st t off ch hk hpc hb hd
  rw [if_pos hcl] at hstep
  refine ⟨?_, ch, hb, hcl, hstep⟩
  rw [enabled_eq hi, hstep]
  rfl

/-! ### The mid-flight setter really closes the channel (bounded progress) -/

theorem setterMid_inWindow {s : St} {u : Th} {ch : Nat} (hi : ThInv s u) (hm : SetterMid u ch) :
    inWindow u = true := by
  obtain ⟨⟨m, hk⟩, hb, h1, h3, hd⟩ := hm
  have hok : u.ok = true := by rw [hi.ok_eq, hb]; rfl
  simp [inWindow, hd, hok, hk]
  omega

theorem setterMid_step {c : Cfg} (hinv : TokenInv c) {j : Nat} {u : Th} {ch : Nat}
    (hj : c.ths[j]? = some u) (hm : SetterMid u ch) :
    ch ∈ (stepCfg c (.step j)).st.closedCh ∨
      ∃ u', (stepCfg c (.step j)).ths[j]? = some u' ∧ SetterMid u' ch ∧ u'.pc = u.pc + 1 := by
  have hti := hinv.thInv j u hj
  have hw := setterMid_inWindow hti hm
  have hen := inWindow_enabled hw (token_window hinv hj hw)
  cases hst : stepTh c.st u with
  | none => rw [hst] at hen; cases hen
  | some p =>
    obtain ⟨s', u'⟩ := p
    rw [stepCfg_step_some hj hst]
    rcases (stepTh_spec hst).setterMid_progress hti hm with ⟨hm', hpc⟩ | hcl
    · exact Or.inr ⟨u', get_set_self hj, hm', hpc⟩
    · exact Or.inl hcl

/-- The setter of `parked_not_passed` is never blocked, and scheduling it (at most) three
times closes the channel — whatever state the rest of the system is in. -/
theorem setter_closes (n : Int) (evs : List Ev) (j : Nat) (u : Th) (ch : Nat)
    (hj : (run (init n) evs).ths[j]? = some u) (hm : SetterMid u ch) :
    enabled (run (init n) evs) j = true ∧
      ch ∈ (run (init n) (evs ++ [.step j, .step j, .step j])).st.closedCh := by
  have hinv0 := tokenInv_run n evs
  refine ⟨holder_enabled' hinv0 hj (setterMid_inWindow (hinv0.thInv j u hj) hm), ?_⟩
  rw [run_append]
  generalize run (init n) evs = c0 at hj hinv0
  have hinv1 := tokenInv_step c0 (.step j) hinv0
  have hinv2 := tokenInv_step _ (.step j) hinv1
  show ch ∈ (stepCfg (stepCfg (stepCfg c0 (.step j)) (.step j)) (.step j)).st.closedCh
  rcases setterMid_step hinv0 hj hm with h | ⟨u1, hj1, hm1, hp1⟩
  · exact (stepCfg_mono _ _).2.2 ch ((stepCfg_mono _ _).2.2 ch h)
  · rcases setterMid_step hinv1 hj1 hm1 with h | ⟨u2, hj2, hm2, hp2⟩
    · exact (stepCfg_mono _ _).2.2 ch h
    · rcases setterMid_step hinv2 hj2 hm2 with h | ⟨u3, hj3, hm3, hp3⟩
      · exact h
      · obtain ⟨_, _, h1, _, _⟩ := hm
        obtain ⟨_, _, _, h3, _⟩ := hm3
        omega

/-! ## 2. No deadlock -/

/-- In every reachable configuration, if some call is unfinished and is not a legitimately
parked waiter, then some thread can take a step. -/
theorem no_deadlock (n : Int) (evs : List Ev) (i : Nat) (t : Th)
    (hi : (run (init n) evs).ths[i]? = some t) (hd : t.done = false)
    (hnp : ¬ Parked (run (init n) evs).st t) :
    ∃ j, enabled (run (init n) evs) j = true := by
  have hinv := tokenInv_run n evs
  cases hst : stepTh (run (init n) evs).st t with
  | some p => exact ⟨i, by rw [enabled_eq hi, hst]; rfl⟩
  | none =>
    rcases stepTh_none hst hd (hinv.thInv i t hi) with ⟨_, hemp⟩ | ⟨hw, c, hfull⟩ | hp
    · -- waiting for the token: its holder is enabled
      have h1 := hinv.empty hemp
      obtain ⟨j, u, hj, hw⟩ := holders_pos (ths := (run (init n) evs).ths) (by omega)
      exact ⟨j, by rw [enabled_eq hj]; exact inWindow_enabled hw hemp⟩
    · -- a holder facing a full barrier: impossible
      have := holders_zero (hinv.full c hfull).1 hi
      rw [hw] at this
      cases this
    · exact absurd hp hnp

/-- The token holder itself is never blocked. -/
theorem holder_enabled (n : Int) (evs : List Ev) (i : Nat) (t : Th)
    (hi : (run (init n) evs).ths[i]? = some t) (hw : inWindow t = true) :
    enabled (run (init n) evs) i = true := by
  rw [enabled_eq hi]
  exact inWindow_enabled hw (token_window (tokenInv_run n evs) hi hw)

/-! ## Non-vacuity: a concrete run -/

/-- `Wait(5)` on a notifier at 0 parks; `Set(10)` runs to completion; the waiter wakes. -/
def demoPark : List Ev :=
  [.spawn (.wait 5), .step 0, .step 0, .step 0, .step 0, .step 0, .step 0]

def demoSet : List Ev :=
  [.spawn (.set 10), .step 1, .step 1, .step 1, .step 1, .step 1, .step 1]

example :
    -- the waiter is parked on channel 0 and blocked
    (run (init 0) demoPark).ths[0]? =
        some { kind := .wait 5, pc := 6, b := some 0, ok := true } ∧
      enabled (run (init 0) demoPark) 0 = false ∧
    -- the setter finishes: next = 10, channel 0 closed, fresh channel 1 in the barrier
    (run (init 0) (demoPark ++ demoSet)).st =
        { next := 10, barrier := .full 1, closedCh := [0], fresh := 2 } ∧
      (run (init 0) (demoPark ++ demoSet)).ths[1]? =
        some { kind := .set 10, pc := 5, b := some 0, ok := true, res := some .none_ } ∧
    -- the waiter is enabled again and returns nil
      enabled (run (init 0) (demoPark ++ demoSet)) 0 = true ∧
      (run (init 0) (demoPark ++ demoSet ++ [.step 0])).ths[0]? =
        some { kind := .wait 5, pc := 6, b := some 0, ok := true, res := some .nil } := by
  decide

/-- A cancelled waiter returns `ctx.Err()`; a `Wait` after `Close` returns `ErrClosed`. -/
example :
    (run (init 0) (demoPark ++ [.cancel 0, .step 0])).ths[0]? =
        some { kind := .wait 5, pc := 6, b := some 0, ok := true, ctxDone := true,
               res := some .ctxErr } ∧
      (run (init 0) [.spawn .close, .step 0, .step 0, .step 0, .step 0, .step 0,
          .spawn (.wait 5), .step 1, .step 1, .step 1]).ths[1]? =
        some { kind := .wait 5, pc := 2, res := some .errClosed } := by
  decide

end Klev.Notify

/-! ## Axiom audit -/
#print axioms Klev.Notify.stepTh_iff_step
#print axioms Klev.Notify.tokenInv_init
#print axioms Klev.Notify.tokenInv_step
#print axioms Klev.Notify.tokenInv_run
#print axioms Klev.Notify.no_panic
#print axioms Klev.Notify.token_unique
#print axioms Klev.Notify.token_full
#print axioms Klev.Notify.token_empty
#print axioms Klev.Notify.token_closed
#print axioms Klev.Notify.token_window
#print axioms Klev.Notify.local_lt_fresh
#print axioms Klev.Notify.stepCfg_mono
#print axioms Klev.Notify.run_mono
#print axioms Klev.Notify.next_monotone_run
#print axioms Klev.Notify.next_monotone_reach
#print axioms Klev.Notify.fresh_monotone_run
#print axioms Klev.Notify.closed_monotone_run
#print axioms Klev.Notify.no_deadlock
#print axioms Klev.Notify.holder_enabled
#print axioms Klev.Notify.channel_current_or_closed
#print axioms Klev.Notify.parked_not_passed
#print axioms Klev.Notify.no_lost_wakeup
#print axioms Klev.Notify.setter_closes
#print axioms Klev.Notify.woken_only_by_set_close
#print axioms Klev.Notify.parked_enabled_iff
#print axioms Klev.Notify.parked_step
#print axioms Klev.Notify.immediate
#print axioms Klev.Notify.immediate_cfg
#print axioms Klev.Notify.wait_after_close_fails
#print axioms Klev.Notify.cancel_returns
