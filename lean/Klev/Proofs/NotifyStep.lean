/-
Relational view of `Klev.Notify.stepTh`: one constructor per (kind, pc, branch).
Every later proof about a thread step does `cases` on this relation, so that the
thread record (and in particular its `pc`) is a literal and everything computes.
-/
import Klev.Notify

namespace Klev.Notify

/-- `Step s t s' t'`: thread `t` executes one instruction in shared state `s`. -/
inductive Step : St → Th → St → Th → Prop
  -- Wait -------------------------------------------------------------------------------
  | w0_fast {s : St} {off : Int} {b : Option Nat} {ok upd cd : Bool} (h : off < s.next) :
      Step s ⟨.wait off, 0, b, ok, upd, cd, none⟩ s ⟨.wait off, 0, b, ok, upd, cd, some .nil⟩
  | w0_slow {s : St} {off : Int} {b : Option Nat} {ok upd cd : Bool} (h : ¬ off < s.next) :
      Step s ⟨.wait off, 0, b, ok, upd, cd, none⟩ s ⟨.wait off, 1, b, ok, upd, cd, none⟩
  | w1_closed {s : St} {off : Int} {b : Option Nat} {ok upd cd : Bool} (h : s.barrier = .closed) :
      Step s ⟨.wait off, 1, b, ok, upd, cd, none⟩ s ⟨.wait off, 2, none, false, upd, cd, none⟩
  | w1_full {s : St} {off : Int} {b : Option Nat} {ok upd cd : Bool} {c : Nat}
      (h : s.barrier = .full c) :
      Step s ⟨.wait off, 1, b, ok, upd, cd, none⟩
        { s with barrier := .empty } ⟨.wait off, 2, some c, true, upd, cd, none⟩
  | w2_ok {s : St} {off : Int} {b : Option Nat} {upd cd : Bool} :
      Step s ⟨.wait off, 2, b, true, upd, cd, none⟩ s ⟨.wait off, 3, b, true, upd, cd, none⟩
  | w2_ret {s : St} {off : Int} {b : Option Nat} {upd cd : Bool} :
      Step s ⟨.wait off, 2, b, false, upd, cd, none⟩ s
        ⟨.wait off, 2, b, false, upd, cd, some .errClosed⟩
  | w3 {s : St} {off : Int} {b : Option Nat} {ok upd cd : Bool} :
      Step s ⟨.wait off, 3, b, ok, upd, cd, none⟩ s
        ⟨.wait off, 4, b, ok, decide (off < s.next), cd, none⟩
  | w4_send {s : St} {off : Int} {c : Nat} {ok upd cd : Bool} (h : s.barrier = .empty) :
      Step s ⟨.wait off, 4, some c, ok, upd, cd, none⟩
        { s with barrier := .full c } ⟨.wait off, 5, some c, ok, upd, cd, none⟩
  | w4_panicClosed {s : St} {off : Int} {b : Option Nat} {ok upd cd : Bool}
      (h : s.barrier = .closed) :
      Step s ⟨.wait off, 4, b, ok, upd, cd, none⟩
        { s with panicked := true } ⟨.wait off, 5, b, ok, upd, cd, none⟩
  | w4_panicNone {s : St} {off : Int} {ok upd cd : Bool} (h : s.barrier = .empty) :
      Step s ⟨.wait off, 4, none, ok, upd, cd, none⟩
        { s with panicked := true } ⟨.wait off, 5, none, ok, upd, cd, none⟩
  | w5_ret {s : St} {off : Int} {b : Option Nat} {ok cd : Bool} :
      Step s ⟨.wait off, 5, b, ok, true, cd, none⟩ s ⟨.wait off, 5, b, ok, true, cd, some .nil⟩
  | w5_adv {s : St} {off : Int} {b : Option Nat} {ok cd : Bool} :
      Step s ⟨.wait off, 5, b, ok, false, cd, none⟩ s ⟨.wait off, 6, b, ok, false, cd, none⟩
  | w6_woken {s : St} {off : Int} {c : Nat} {ok upd cd : Bool} (h : c ∈ s.closedCh) :
      Step s ⟨.wait off, 6, some c, ok, upd, cd, none⟩ s
        ⟨.wait off, 6, some c, ok, upd, cd, some .nil⟩
  | w6_cancel {s : St} {off : Int} {c : Nat} {ok upd : Bool} (h : c ∉ s.closedCh) :
      Step s ⟨.wait off, 6, some c, ok, upd, true, none⟩ s
        ⟨.wait off, 6, some c, ok, upd, true, some .ctxErr⟩
  -- Set --------------------------------------------------------------------------------
  | s0_closed {s : St} {n : Int} {b : Option Nat} {ok upd cd : Bool} (h : s.barrier = .closed) :
      Step s ⟨.set n, 0, b, ok, upd, cd, none⟩ s ⟨.set n, 1, none, false, upd, cd, none⟩
  | s0_full {s : St} {n : Int} {b : Option Nat} {ok upd cd : Bool} {c : Nat}
      (h : s.barrier = .full c) :
      Step s ⟨.set n, 0, b, ok, upd, cd, none⟩
        { s with barrier := .empty } ⟨.set n, 1, some c, true, upd, cd, none⟩
  | s1_ok {s : St} {n : Int} {b : Option Nat} {upd cd : Bool} :
      Step s ⟨.set n, 1, b, true, upd, cd, none⟩ s ⟨.set n, 2, b, true, upd, cd, none⟩
  | s1_ret {s : St} {n : Int} {b : Option Nat} {upd cd : Bool} :
      Step s ⟨.set n, 1, b, false, upd, cd, none⟩ s ⟨.set n, 1, b, false, upd, cd, some .none_⟩
  | s2_store {s : St} {n : Int} {b : Option Nat} {ok upd cd : Bool} (h : s.next < n) :
      Step s ⟨.set n, 2, b, ok, upd, cd, none⟩ { s with next := n }
        ⟨.set n, 3, b, ok, upd, cd, none⟩
  | s2_keep {s : St} {n : Int} {b : Option Nat} {ok upd cd : Bool} (h : ¬ s.next < n) :
      Step s ⟨.set n, 2, b, ok, upd, cd, none⟩ s ⟨.set n, 3, b, ok, upd, cd, none⟩
  | s3_close {s : St} {n : Int} {c : Nat} {ok upd cd : Bool} (h : c ∉ s.closedCh) :
      Step s ⟨.set n, 3, some c, ok, upd, cd, none⟩
        { s with closedCh := c :: s.closedCh } ⟨.set n, 4, some c, ok, upd, cd, none⟩
  | s3_panicDouble {s : St} {n : Int} {c : Nat} {ok upd cd : Bool} (h : c ∈ s.closedCh) :
      Step s ⟨.set n, 3, some c, ok, upd, cd, none⟩
        { s with panicked := true } ⟨.set n, 4, some c, ok, upd, cd, none⟩
  | s3_panicNone {s : St} {n : Int} {ok upd cd : Bool} :
      Step s ⟨.set n, 3, none, ok, upd, cd, none⟩
        { s with panicked := true } ⟨.set n, 4, none, ok, upd, cd, none⟩
  | s4_send {s : St} {n : Int} {b : Option Nat} {ok upd cd : Bool} (h : s.barrier = .empty) :
      Step s ⟨.set n, 4, b, ok, upd, cd, none⟩
        { s with barrier := .full s.fresh, fresh := s.fresh + 1 }
        ⟨.set n, 5, b, ok, upd, cd, none⟩
  | s4_panic {s : St} {n : Int} {b : Option Nat} {ok upd cd : Bool} (h : s.barrier = .closed) :
      Step s ⟨.set n, 4, b, ok, upd, cd, none⟩
        { s with panicked := true } ⟨.set n, 5, b, ok, upd, cd, none⟩
  | s5 {s : St} {n : Int} {b : Option Nat} {ok upd cd : Bool} :
      Step s ⟨.set n, 5, b, ok, upd, cd, none⟩ s ⟨.set n, 5, b, ok, upd, cd, some .none_⟩
  -- Close ------------------------------------------------------------------------------
  | c0_closed {s : St} {b : Option Nat} {ok upd cd : Bool} (h : s.barrier = .closed) :
      Step s ⟨.close, 0, b, ok, upd, cd, none⟩ s ⟨.close, 1, none, false, upd, cd, none⟩
  | c0_full {s : St} {b : Option Nat} {ok upd cd : Bool} {c : Nat} (h : s.barrier = .full c) :
      Step s ⟨.close, 0, b, ok, upd, cd, none⟩
        { s with barrier := .empty } ⟨.close, 1, some c, true, upd, cd, none⟩
  | c1_ok {s : St} {b : Option Nat} {upd cd : Bool} :
      Step s ⟨.close, 1, b, true, upd, cd, none⟩ s ⟨.close, 2, b, true, upd, cd, none⟩
  | c1_ret {s : St} {b : Option Nat} {upd cd : Bool} :
      Step s ⟨.close, 1, b, false, upd, cd, none⟩ s
        ⟨.close, 1, b, false, upd, cd, some .errClosed⟩
  | c2_close {s : St} {c : Nat} {ok upd cd : Bool} (h : c ∉ s.closedCh) :
      Step s ⟨.close, 2, some c, ok, upd, cd, none⟩
        { s with closedCh := c :: s.closedCh } ⟨.close, 3, some c, ok, upd, cd, none⟩
  | c2_panicDouble {s : St} {c : Nat} {ok upd cd : Bool} (h : c ∈ s.closedCh) :
      Step s ⟨.close, 2, some c, ok, upd, cd, none⟩
        { s with panicked := true } ⟨.close, 3, some c, ok, upd, cd, none⟩
  | c2_panicNone {s : St} {ok upd cd : Bool} :
      Step s ⟨.close, 2, none, ok, upd, cd, none⟩
        { s with panicked := true } ⟨.close, 3, none, ok, upd, cd, none⟩
  | c3_close {s : St} {b : Option Nat} {ok upd cd : Bool} (h : s.barrier ≠ .closed) :
      Step s ⟨.close, 3, b, ok, upd, cd, none⟩
        { s with barrier := .closed } ⟨.close, 4, b, ok, upd, cd, none⟩
  | c3_panic {s : St} {b : Option Nat} {ok upd cd : Bool} (h : s.barrier = .closed) :
      Step s ⟨.close, 3, b, ok, upd, cd, none⟩
        { s with panicked := true } ⟨.close, 4, b, ok, upd, cd, none⟩
  | c4 {s : St} {b : Option Nat} {ok upd cd : Bool} :
      Step s ⟨.close, 4, b, ok, upd, cd, none⟩ s ⟨.close, 4, b, ok, upd, cd, some .nil⟩

/-- `stepTh` is sound for `Step` (and `Step` is exactly `stepTh`, see `Step.stepTh_eq`). -/
theorem stepTh_spec {s s' : St} {t t' : Th} (h : stepTh s t = some (s', t')) : Step s t s' t' := by
  obtain ⟨kind, pc, b, ok, upd, cd, res⟩ := t
  cases res with
  | some r => simp [stepTh, Th.done] at h
  | none =>
    cases kind <;> rcases pc with _|_|_|_|_|_|_|pc <;>
      simp [stepTh, Th.done, progOf, waitProg, setProg, closeProg] at h
    all_goals (try split at h) <;> (try split at h) <;> (try simp at h)
    all_goals (try (obtain ⟨rfl, rfl⟩ := h))
    all_goals (try (obtain ⟨rfl, rfl, rfl⟩ := h))
    all_goals (try simp only [Bool.not_eq_true] at *)
    all_goals (try subst_vars)
    all_goals first
      | (constructor; done)
      | (constructor; assumption)
      | exact Step.w4_panicNone ‹_›

/-- Conversely every `Step` is a `stepTh` transition: the relation is exact. -/
theorem Step.stepTh_eq {s s' : St} {t t' : Th} (h : Step s t s' t') : stepTh s t = some (s', t') := by
  cases h <;> simp_all [stepTh, Th.done, progOf, waitProg, setProg, closeProg]
  intro h; omega

theorem stepTh_iff_step {s s' : St} {t t' : Th} : stepTh s t = some (s', t') ↔ Step s t s' t' :=
  ⟨stepTh_spec, Step.stepTh_eq⟩

/-! ### Thread-local notions -/

/-- The thread holds the token: it is between its successful `recvBarrier` and its
`sendBarrierB` / `sendBarrierNew` / `closeBarrier`. -/
def inWindow (t : Th) : Bool :=
  !t.done && t.ok &&
    (match t.kind with
     | .wait _ => decide (2 ≤ t.pc ∧ t.pc ≤ 4)
     | .set _ => decide (1 ≤ t.pc ∧ t.pc ≤ 4)
     | .close => decide (1 ≤ t.pc ∧ t.pc ≤ 3))

/-- A `Set`/`Close` thread that has executed its `closeB`. -/
def pastCloseB (t : Th) : Bool :=
  match t.kind with
  | .wait _ => false
  | .set _ => decide (4 ≤ t.pc)
  | .close => decide (3 ≤ t.pc)

/-- pc of the `recvBarrier` instruction. -/
def recvPc : Kind → Nat
  | .wait _ => 1
  | _ => 0

/-- Thread-local invariant. -/
def ThInv (s : St) (t : Th) : Prop :=
  t.pc < (progOf t.kind).length ∧
  (t.pc ≤ recvPc t.kind → t.ok = false) ∧
  (recvPc t.kind + 2 ≤ t.pc → t.ok = true) ∧
  (t.ok = t.b.isSome) ∧
  (∀ ch, t.b = some ch → ch < s.fresh) ∧
  (∀ off, t.kind = .wait off → t.pc = 6 → t.upd = false)

theorem ThInv.mono {s s' : St} {t : Th} (h : ThInv s t) (hf : s.fresh ≤ s'.fresh) : ThInv s' t := by
  obtain ⟨h1, h2, h3, h4, h5, h6⟩ := h
  exact ⟨h1, h2, h3, h4, fun ch hb => Nat.lt_of_lt_of_le (h5 ch hb) hf, h6⟩

theorem ThInv.blt {s : St} {t : Th} (h : ThInv s t) {ch : Nat} (hb : t.b = some ch) :
    ch < s.fresh := h.2.2.2.2.1 ch hb

theorem ThInv.pcLt {s : St} {t : Th} (h : ThInv s t) : t.pc < (progOf t.kind).length := h.1

theorem ThInv.ok_eq {s : St} {t : Th} (h : ThInv s t) : t.ok = t.b.isSome := h.2.2.2.1

theorem ThInv.ok_of_post {s : St} {t : Th} (h : ThInv s t) (hp : recvPc t.kind + 2 ≤ t.pc) :
    t.ok = true := h.2.2.1 hp

theorem ThInv.upd_parked {s : St} {t : Th} (h : ThInv s t) {off : Int} (hk : t.kind = .wait off)
    (hp : t.pc = 6) : t.upd = false := h.2.2.2.2.2 off hk hp

theorem ThInv.fresh (s : St) (k : Kind) : ThInv s { kind := k } := by
  cases k <;> simp [ThInv, progOf, waitProg, setProg, closeProg, recvPc]

theorem ThInv.cancel {s : St} {t : Th} (h : ThInv s t) : ThInv s { t with ctxDone := true } := h

theorem Step.kind_eq {s s' : St} {t t' : Th} (h : Step s t s' t') : t'.kind = t.kind := by
  cases h <;> rfl

theorem Step.not_done {s s' : St} {t t' : Th} (h : Step s t s' t') : t.done = false := by
  cases h <;> rfl

/-- Monotonicity of the shared state under one thread step. -/
theorem Step.mono {s s' : St} {t t' : Th} (h : Step s t s' t') :
    s.next ≤ s'.next ∧ s.fresh ≤ s'.fresh ∧ (∀ ch, ch ∈ s.closedCh → ch ∈ s'.closedCh) := by
  cases h <;> simp_all <;> omega

theorem Step.thInv {s s' : St} {t t' : Th} (h : Step s t s' t') (hi : ThInv s t)
    (hfull : ∀ ch, s.barrier = .full ch → ch < s.fresh) : ThInv s' t' := by
  obtain ⟨h1, h2, h3, h4, h5, h6⟩ := hi
  cases h <;> simp_all [ThInv, progOf, waitProg, setProg, closeProg, recvPc]
  intro ch hb; exact Nat.lt_succ_of_lt (h5 ch hb)

/-- The effect of one thread step on the token discipline, abstracted from kind/pc. -/
inductive Eff (s : St) (t : Th) (s' : St) (t' : Th) : Prop
  | loc (hbar : s'.barrier = s.barrier) (hcl : s'.closedCh = s.closedCh)
      (hfr : s'.fresh = s.fresh) (hpan : s'.panicked = s.panicked)
      (hw : inWindow t' = inWindow t) (hb : t'.b = t.b) (hp : pastCloseB t' = pastCloseB t)
  | acquire (ch : Nat) (hbar : s.barrier = .full ch) (hs : s' = { s with barrier := .empty })
      (hw : inWindow t = false) (hw' : inWindow t' = true) (hb' : t'.b = some ch)
      (hp' : pastCloseB t' = false)
  | release (ch : Nat) (hbar : s.barrier = .empty) (hs : s' = { s with barrier := .full ch })
      (hw : inWindow t = true) (hw' : inWindow t' = false) (hb : t.b = some ch)
      (hb' : t'.b = some ch) (hp : pastCloseB t = false)
  | closeB (ch : Nat) (hnc : ch ∉ s.closedCh)
      (hs : s' = { s with closedCh := ch :: s.closedCh })
      (hw : inWindow t = true) (hw' : inWindow t' = true) (hb : t.b = some ch)
      (hb' : t'.b = some ch) (hp' : pastCloseB t' = true)
  | releaseNew (ch : Nat) (hbar : s.barrier = .empty)
      (hs : s' = { s with barrier := .full s.fresh, fresh := s.fresh + 1 })
      (hw : inWindow t = true) (hw' : inWindow t' = false) (hb : t.b = some ch)
      (hb' : t'.b = some ch) (hp : pastCloseB t = true)
  | closeBar (ch : Nat) (hbar : s.barrier = .empty) (hs : s' = { s with barrier := .closed })
      (hw : inWindow t = true) (hw' : inWindow t' = false) (hb : t.b = some ch)
      (hb' : t'.b = some ch) (hp : pastCloseB t = true)

/-- Under the token discipline (a thread in its window sees an empty barrier and its channel
is closed iff it is past its `closeB`) every step is one of the six effects; in particular
the panicking branches are unreachable. -/
theorem Step.eff {s s' : St} {t t' : Th} (h : Step s t s' t') (hi : ThInv s t)
    (hctx : inWindow t = true → s.barrier = .empty ∧
      ∀ ch, t.b = some ch → (ch ∈ s.closedCh ↔ pastCloseB t = true)) : Eff s t s' t' := by
  obtain ⟨h1, h2, h3, h4, h5, h6⟩ := hi
  cases h <;>
    simp [inWindow, pastCloseB, Th.done, recvPc] at h2 h3 h4 hctx
  case s4_send n b ok upd cd h =>
    subst h3
    rcases b with _ | ch
    · simp at h4
    · exact Eff.releaseNew ch h rfl (by simp [inWindow, Th.done]) (by simp [inWindow, Th.done])
        rfl rfl (by simp [pastCloseB])
  case c3_close b ok upd cd h =>
    subst h3
    rcases b with _ | ch
    · simp at h4
    · exact Eff.closeBar ch (hctx rfl).1 rfl (by simp [inWindow, Th.done])
        (by simp [inWindow, Th.done]) rfl rfl (by simp [pastCloseB])
  all_goals first
    | exact Eff.loc rfl rfl rfl rfl (by simp [inWindow, Th.done]) rfl (by simp [pastCloseB])
    | (refine Eff.loc rfl rfl rfl rfl ?_ ?_ ?_ <;> simp_all [inWindow, Th.done, pastCloseB]; done)
    | (refine Eff.acquire _ ‹_› rfl ?_ ?_ rfl ?_ <;> simp_all [inWindow, Th.done, pastCloseB]; done)
    | (refine Eff.release _ ‹_› rfl ?_ ?_ rfl rfl ?_ <;> simp_all [inWindow, Th.done, pastCloseB]; done)
    | (refine Eff.closeB _ ‹_› rfl ?_ ?_ rfl rfl ?_ <;> simp_all [inWindow, Th.done, pastCloseB]; done)
    | (exfalso; simp_all; done)
    | trace_state

/-! ### Facts for the no-lost-wakeup invariant -/

/-- A waiter that has executed its probe (pc ∈ {4,5,6}), is not done, and probed `false`. -/
def PastProbe (t : Th) (off : Int) : Prop :=
  t.kind = .wait off ∧ 4 ≤ t.pc ∧ t.done = false ∧ t.upd = false

/-- A `Set` thread holding channel `ch` that has not yet executed its `closeB`. -/
def SetterMid (u : Th) (ch : Nat) : Prop :=
  (∃ n, u.kind = .set n) ∧ u.b = some ch ∧ 1 ≤ u.pc ∧ u.pc ≤ 3 ∧ u.done = false

/-- `next` only changes in `storeMax` of a `Set` thread in its window, which is then about
to close its channel. -/
theorem Step.next_change {s s' : St} {t t' : Th} (h : Step s t s' t') (hi : ThInv s t)
    (hne : s'.next ≠ s.next) : inWindow t = true ∧ ∀ ch, t.b = some ch → SetterMid t' ch := by
  obtain ⟨h1, h2, h3, h4, h5, h6⟩ := hi
  cases h <;> simp_all [inWindow, Th.done, SetterMid, recvPc]

theorem Step.setterMid {s s' : St} {t t' : Th} (h : Step s t s' t') (hi : ThInv s t) {ch : Nat}
    (hm : SetterMid t ch) : SetterMid t' ch ∨ ch ∈ s'.closedCh := by
  obtain ⟨h1, h2, h3, h4, h5, h6⟩ := hi
  obtain ⟨⟨n, hk⟩, hb, hp1, hp3, hd⟩ := hm
  cases h <;> simp_all [SetterMid, Th.done]

/-- Stronger form with pc progress: a mid-flight setter advances or closes its channel. -/
theorem Step.setterMid_progress {s s' : St} {t t' : Th} (h : Step s t s' t') (hi : ThInv s t)
    {ch : Nat} (hm : SetterMid t ch) :
    (SetterMid t' ch ∧ t'.pc = t.pc + 1) ∨ ch ∈ s'.closedCh := by
  obtain ⟨h1, h2, h3, h4, h5, h6⟩ := hi
  obtain ⟨⟨n, hk⟩, hb, hp1, hp3, hd⟩ := hm
  cases h <;> simp_all [SetterMid, Th.done]

theorem Step.pastProbe {s s' : St} {t t' : Th} (h : Step s t s' t') {off : Int} {ch : Nat}
    (hp : PastProbe t' off) (hb : t'.b = some ch) :
    (PastProbe t off ∧ t.b = some ch) ∨ s'.next ≤ off := by
  obtain ⟨hk, hpc, hd, hu⟩ := hp
  cases h <;> simp_all [PastProbe, Th.done]

/-- A channel becomes closed only by the `closeB` of a `Set`/`Close` thread holding it. -/
theorem Step.closed_change {s s' : St} {t t' : Th} (h : Step s t s' t') {ch : Nat}
    (hin : ch ∈ s'.closedCh) (hnot : ch ∉ s.closedCh) :
    (t.kind = .close ∨ ∃ n, t.kind = .set n) ∧ (progOf t.kind)[t.pc]? = some .closeB ∧
      t.b = some ch := by
  cases h <;> simp_all [progOf, setProg, closeProg]

/-! ### Blocking -/

/-- A legitimately parked waiter: at `selectWait`, its channel still open, not cancelled. -/
def Parked (s : St) (t : Th) : Prop :=
  ∃ off ch, t.kind = .wait off ∧ t.pc = 6 ∧ t.b = some ch ∧ ch ∉ s.closedCh ∧ t.ctxDone = false

/-- Why a (well-formed, unfinished) thread can be blocked. -/
theorem stepTh_none {s : St} {t : Th} (h : stepTh s t = none) (hd : t.done = false)
    (hi : ThInv s t) :
    ((progOf t.kind)[t.pc]? = some .recvBarrier ∧ s.barrier = .empty) ∨
    (inWindow t = true ∧ ∃ c, s.barrier = .full c) ∨ Parked s t := by
  obtain ⟨h1, h2, h3, h4, h5, h6⟩ := hi
  obtain ⟨kind, pc, b, ok, upd, cd, res⟩ := t
  cases res with
  | some r => simp [Th.done] at hd
  | none =>
    cases kind <;> rcases pc with _|_|_|_|_|_|_|pc <;>
      simp [progOf, waitProg, setProg, closeProg] at h1 <;>
      simp [stepTh, Th.done, progOf, waitProg, setProg, closeProg, recvPc] at h h2 h3 h4 ⊢
    all_goals (try omega)
    all_goals (try split at h) <;> (try split at h) <;> (try split at h) <;>
      simp_all [inWindow, Th.done, Parked]

/-- The token holder can always take its next step (it never waits for anything). -/
theorem inWindow_enabled {s : St} {t : Th} (hw : inWindow t = true) (hbar : s.barrier = .empty) :
    (stepTh s t).isSome = true := by
  obtain ⟨kind, pc, b, ok, upd, cd, res⟩ := t
  cases res with
  | some r => simp [inWindow, Th.done] at hw
  | none =>
    cases kind <;> rcases pc with _|_|_|_|_|_|_|pc <;>
      simp [inWindow, Th.done] at hw <;>
      simp [stepTh, Th.done, progOf, waitProg, setProg, closeProg, hbar]
    all_goals subst hw
    all_goals first
      | (simp; done)
      | (split <;> simp; done)
      | (split <;> (try split) <;> simp_all; done)

end Klev.Notify
