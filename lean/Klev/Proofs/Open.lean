/-
Close / reopen: the files of a log that satisfies the invariant open — with any options,
after removing any index files, after migrating or recovering while closed — to a log
that satisfies the invariant and has the same content.
-/
import Klev.Proofs.Delete
namespace Klev

def shapeD (d : List SegDisk) : Shape := d.map (fun s => (s.base, s.recs))

/-- A directory of clean segments. -/
structure DiskOK (d : List SegDisk) : Prop where
  shape : ShapeOK (shapeD d)
  idx : ∀ sd ∈ d, ∀ f, sd.idxf = some f → ItemsFor sd.ver sd.recs f.items

def absDisk (d : List SegDisk) : Spec := absShape (shapeD d)

theorem shapeD_disk (l : Log) : shapeD l.disk = shape l.segs := by
  simp [shapeD, Log.disk, shape, Seg.toDisk, List.map_map, Function.comp_def]

/-- Closing: the files of a log satisfying the invariant are a clean directory with the
same content. -/
theorem disk_of_inv (l : Log) (hinv : Inv l) : DiskOK l.disk ∧ absDisk l.disk = abs l := by
  refine ⟨⟨by rw [shapeD_disk]; exact hinv.shape, ?_⟩, by unfold absDisk abs; rw [shapeD_disk]⟩
  intro sd hsd f hf
  unfold Log.disk at hsd
  obtain ⟨s, hs, rfl⟩ := List.mem_map.mp hsd
  exact (hinv.idx s hs).idx f hf

theorem shape_toSeg (d : List SegDisk) : shape (d.map SegDisk.toSeg) = shapeD d := by
  simp [shape, shapeD, SegDisk.toSeg, List.map_map, Function.comp_def]

theorem toSeg_idxOK (sd : SegDisk) (h : ∀ f, sd.idxf = some f → ItemsFor sd.ver sd.recs f.items) :
    IdxOK sd.toSeg := by
  refine ⟨?_, h⟩
  intro its hi; simp [SegDisk.toSeg] at hi

/-! ### operations on the closed directory -/

/-- Removing index files. -/
theorem rmidx_ok (d : List SegDisk) (h : DiskOK d) (bl : List Int) :
    DiskOK (d.map (fun sd => if bl.contains sd.base then { sd with idxf := none } else sd)) ∧
    absDisk (d.map (fun sd => if bl.contains sd.base then { sd with idxf := none } else sd)) = absDisk d := by
  have hs : shapeD (d.map (fun sd => if bl.contains sd.base then { sd with idxf := none } else sd)) = shapeD d := by
    unfold shapeD
    rw [List.map_map]
    apply List.map_congr_left
    intro sd _
    simp only [Function.comp]
    split <;> rfl
  refine ⟨⟨by rw [hs]; exact h.shape, ?_⟩, by unfold absDisk; rw [hs]⟩
  intro sd hsd f hf
  obtain ⟨sd0, hsd0, rfl⟩ := List.mem_map.mp hsd
  by_cases hc : bl.contains sd0.base = true
  · rw [if_pos hc] at hf; simp at hf
  · rw [if_neg hc] at hf ⊢
    exact h.idx sd0 hsd0 f hf

/-- `Segment.Migrate` of every segment. -/
theorem migrate_ok (d : List SegDisk) (h : DiskOK d) (p : Params) (mv iv : Ver) :
    DiskOK (d.map (segMigrate p mv iv)) ∧ absDisk (d.map (segMigrate p mv iv)) = absDisk d := by
  have hs : shapeD (d.map (segMigrate p mv iv)) = shapeD d := by
    unfold shapeD
    rw [List.map_map]
    apply List.map_congr_left
    intro sd _
    simp only [Function.comp, segMigrate]
    split <;> rfl
  refine ⟨⟨by rw [hs]; exact h.shape, ?_⟩, by unfold absDisk; rw [hs]⟩
  intro sd hsd f hf
  obtain ⟨sd0, hsd0, rfl⟩ := List.mem_map.mp hsd
  unfold segMigrate at hf ⊢
  split at hf
  · next hv =>
    simp only [hv, if_true]
    have := h.idx sd0 hsd0 f hf
    rw [hv] at this; exact this
  · next hv =>
    simp only [hv, if_false]
    simp only [Option.some.injEq] at hf
    subst hf
    exact derive_itemsFor _ _ _

theorem segRecover_shape (p : Params) (sd : SegDisk) :
    (segRecover p sd).base = sd.base ∧ (segRecover p sd).recs = sd.recs ∧ (segRecover p sd).ver = sd.ver := by
  unfold segRecover
  split
  · exact ⟨rfl, rfl, rfl⟩
  · split <;> exact ⟨rfl, rfl, rfl⟩

theorem mapLast_map {α β : Type} (f : α → α) (g : α → β) (hfg : ∀ a, g (f a) = g a) :
    ∀ l : List α, (mapLast f l).map g = l.map g := by
  intro l
  induction l with
  | nil => rfl
  | cons x xs ih =>
    cases xs with
    | nil => simp [mapLast, hfg]
    | cons y ys =>
      simp only [mapLast, List.map_cons] at ih ⊢
      rw [ih]

theorem mem_mapLast {α : Type} (f : α → α) : ∀ (l : List α) (x : α), x ∈ mapLast f l → x ∈ l ∨ ∃ y ∈ l, x = f y := by
  intro l
  induction l with
  | nil => intro x h; simp [mapLast] at h
  | cons a as ih =>
    intro x h
    cases as with
    | nil =>
      simp only [mapLast, List.mem_singleton] at h
      exact Or.inr ⟨a, by simp, h⟩
    | cons b bs =>
      simp only [mapLast, List.mem_cons] at h
      rcases h with h | h
      · exact Or.inl (by simp [h])
      · rcases ih x (by simpa using h) with h2 | ⟨y, hy, hxy⟩
        · exact Or.inl (List.mem_cons_of_mem _ h2)
        · exact Or.inr ⟨y, List.mem_cons_of_mem _ hy, hxy⟩

/-- `Segment.Recover` of the head of a clean directory (only a differing index is rewritten). -/
theorem recover_ok (d : List SegDisk) (h : DiskOK d) (p : Params) :
    DiskOK (mapLast (segRecover p) d) ∧ absDisk (mapLast (segRecover p) d) = absDisk d := by
  have hs : shapeD (mapLast (segRecover p) d) = shapeD d := by
    unfold shapeD
    apply mapLast_map
    intro a
    have := segRecover_shape p a
    rw [this.1, this.2.1]
  refine ⟨⟨by rw [hs]; exact h.shape, ?_⟩, by unfold absDisk; rw [hs]⟩
  intro sd hsd f hf
  rcases mem_mapLast _ _ _ hsd with h1 | ⟨y, hy, rfl⟩
  · exact h.idx sd h1 f hf
  · have hsh := segRecover_shape p y
    rw [hsh.2.1, hsh.2.2]
    unfold segRecover at hf
    split at hf
    · next hn => rw [hn] at hf; simp at hf
    · next f0 hf0 =>
      split at hf
      · rw [hf0] at hf
        simp only [Option.some.injEq] at hf; subst hf
        exact h.idx y hy f0 hf0
      · simp only [Option.some.injEq] at hf; subst hf
        exact derive_itemsFor _ _ _

end Klev

namespace Klev

theorem itemsFor_nil_iff (v : Ver) (its : List Item) : ItemsFor v [] its ↔ its = [] := by
  constructor
  · intro h
    have := h.length
    simp only [List.length_nil] at this
    exact List.eq_nil_of_length_eq_zero this
  · intro h; subst h; rfl

theorem itemsFor_ver_nil (v v' : Ver) (its : List Item) (h : ItemsFor v [] its) : ItemsFor v' [] its := by
  rw [itemsFor_nil_iff] at h ⊢; exact h

/-- `openWriter` on any consistent segment (as found on disk, index not loaded): same base
and records; the index is in memory and in the file; the writer's next offset is one past
the last record, or the base of an empty segment. -/
theorem openWriter_spec (o : Opts) (s : Seg) (nt : Int) (h : IdxOK s) (hm : s.mem = none) :
    let r := openWriter o s nt
    r.1.base = s.base ∧ r.1.recs = s.recs ∧ IdxOK r.1 ∧ HeadOK r.1 ∧
    r.2.1 = recsNext s.base s.recs := by
  intro r
  by_cases hre : s.recs = []
  · -- empty segment: nothing to read; the index file is created if absent
    have hidx0 : ∀ f, s.idxf = some f → f.items = [] := by
      intro f hf
      have := h.idx f hf
      rw [hre] at this
      exact (itemsFor_nil_iff _ _).mp this
    have hnil : ∀ v, ItemsFor v ([] : List Msg) [] := fun v => rfl
    show (openWriter o s nt).1.base = s.base ∧ (openWriter o s nt).1.recs = s.recs ∧
      IdxOK (openWriter o s nt).1 ∧ HeadOK (openWriter o s nt).1 ∧
      (openWriter o s nt).2.1 = recsNext s.base s.recs
    unfold openWriter
    simp only [hre, List.isEmpty_nil, true_and, if_true, lastOffOr, List.getLast?_nil, recsNext]
    cases hsi : s.idxf with
    | none =>
      refine ⟨⟨?_, ?_⟩, ⟨[], rfl, _, rfl, rfl⟩, trivial⟩
      · intro its hi; simp only [Option.some.injEq] at hi; subst hi; exact hnil _
      · intro f hf; simp only [Option.some.injEq] at hf; subst hf; exact hnil _
    | some f0 =>
      have h0 := hidx0 f0 hsi
      obtain ⟨fv, fi⟩ := f0
      simp only at h0; subst h0
      cases fv with
      | v1 =>
        refine ⟨⟨?_, ?_⟩, ⟨[], rfl, _, rfl, rfl⟩, trivial⟩
        · intro its hi; simp only [Option.some.injEq] at hi; subst hi; exact hnil _
        · intro f hf; simp only [Option.some.injEq] at hf; subst hf; exact hnil _
      | v2 =>
        refine ⟨⟨?_, ?_⟩, ⟨[], rfl, _, rfl, rfl⟩, trivial⟩
        · intro its hi; simp only [Option.some.injEq] at hi; subst hi; exact hnil _
        · intro f hf; simp only [Option.some.injEq] at hf; subst hf; exact hnil _
  · -- records present: the index is read, or rebuilt when the file is missing / has no items
    have hie : s.recs.isEmpty = false := by
      cases hrs : s.recs with
      | nil => exact absurd hrs hre
      | cons a as => rfl
    have hfst : (reindexAndRead o.params o.nsv s).1 ≠ [] ∧
        ItemsFor s.ver s.recs (reindexAndRead o.params o.nsv s).1 ∧
        (∃ f, (reindexAndRead o.params o.nsv s).2 = some f ∧ f.items = (reindexAndRead o.params o.nsv s).1) := by
      have hnonempty : ∀ its, ItemsFor s.ver s.recs its → its ≠ [] := by
        intro its hit he
        have := hit.length
        rw [he] at this; simp only [List.length_nil] at this
        exact hre (List.eq_nil_of_length_eq_zero this.symm)
      unfold reindexAndRead
      by_cases hr : needsReindex s = true
      · simp only [hr, if_true]
        exact ⟨hnonempty _ (derive_itemsFor _ _ _), derive_itemsFor _ _ _, _, rfl, rfl⟩
      · simp only [hr, Bool.false_eq_true, if_false]
        cases hf : s.idxf with
        | none => simp [needsReindex, hf] at hr
        | some f =>
          simp only
          exact ⟨hnonempty _ (h.idx f hf), h.idx f hf, f, rfl, rfl⟩
    obtain ⟨hne, hit, f, hf, hfi⟩ := hfst
    have hr : r = ((⟨s.base, s.ver, s.recs, some f, some (reindexAndRead o.params o.nsv s).1⟩ : Seg),
        lastOffOr (reindexAndRead o.params o.nsv s).1 s.base,
        (match (reindexAndRead o.params o.nsv s).1.getLast? with
          | some it => it.ts
          | none => nt)) := by
      show openWriter o s nt = _
      unfold openWriter
      simp only [hie, Bool.false_eq_true, false_and, if_false, hf]
      have hfne : f.items ≠ [] := by rw [hfi]; exact hne
      obtain ⟨fv, fi⟩ := f
      simp only at hfne
      cases fi with
      | nil => exact absurd rfl hfne
      | cons a as => cases fv <;> rfl
    rw [hr]
    refine ⟨rfl, rfl, ⟨?_, ?_⟩, ⟨_, rfl, f, rfl, hfi⟩, ?_⟩
    · intro its hi
      simp only [Option.some.injEq] at hi; subst hi; exact hit
    · intro f' hf'
      simp only [Option.some.injEq] at hf'; subst hf'
      rw [hfi]; exact hit
    · simp only
      exact lastOffOr_eq hit _

end Klev

namespace Klev

theorem shapeD_ne {d : List SegDisk} (h : DiskOK d) : d ≠ [] := by
  intro he
  have := h.shape.ne
  rw [he] at this
  exact this rfl

/-- **Open** on a clean directory, with any options: when it succeeds (it fails only when
Check rejects an index), the log satisfies the invariant and has the content of the
directory. -/
theorem open_spec (d : List SegDisk) (hd : DiskOK d) (oo : OpenOpts) (l' : Log)
    (h : Log.open d oo = .ok l') : Inv l' ∧ abs l' = absDisk d ∧ l'.opts = oo.opts := by
  have hne := shapeD_ne hd
  obtain ⟨hlast0, hl0⟩ : ∃ x, d.getLast? = some x := ⟨_, List.getLast?_eq_some_getLast hne⟩
  unfold Log.open at h
  simp only at h
  by_cases hro : oo.opts.readonly = true
  · -- read-only: one reader per segment, nothing loaded
    simp only [hro, if_true, hl0] at h
    split at h
    · simp at h
    · simp only [Out.ok.injEq] at h
      subst h
      refine ⟨⟨?_, ?_, ?_, ?_⟩, ?_, rfl⟩
      · simp only; rw [shape_toSeg]; exact hd.shape
      · intro s hs
        simp only at hs
        obtain ⟨sd, hsd, rfl⟩ := List.mem_map.mp hs
        exact toSeg_idxOK sd (hd.idx sd hsd)
      · intro hc; simp only at hc; rw [hro] at hc; simp at hc
      · intro hc; simp only at hc; rw [hro] at hc; simp at hc
      · unfold abs absDisk; simp only; rw [shape_toSeg]
  · -- read-write
    have hro' : oo.opts.readonly = false := by
      cases hc : oo.opts.readonly with
      | true => exact absurd hc hro
      | false => rfl
    simp only [hro', Bool.false_eq_true, if_false, hl0] at h
    split at h
    · simp at h
    · -- after Recover / eager migration the directory is still clean with the same content
      have hd1 : DiskOK (if oo.recover = true then mapLast (segRecover oo.opts.params) d else d) ∧
          absDisk (if oo.recover = true then mapLast (segRecover oo.opts.params) d else d) = absDisk d := by
        split
        · exact recover_ok d hd _
        · exact ⟨hd, rfl⟩
      generalize hd1e : (if oo.recover = true then mapLast (segRecover oo.opts.params) d else d) = d1 at h hd1
      have hd2 : DiskOK (if oo.eager = true then d1.map (segMigrate oo.opts.params oo.opts.nsv oo.opts.nsv) else d1) ∧
          absDisk (if oo.eager = true then d1.map (segMigrate oo.opts.params oo.opts.nsv oo.opts.nsv) else d1) = absDisk d := by
        split
        · have := migrate_ok d1 hd1.1 oo.opts.params oo.opts.nsv oo.opts.nsv
          exact ⟨this.1, this.2.trans hd1.2⟩
        · exact hd1
      generalize hd2e : (if oo.eager = true then d1.map (segMigrate oo.opts.params oo.opts.nsv oo.opts.nsv) else d1) = d2 at h hd2
      have hne2 := shapeD_ne hd2.1
      obtain ⟨h2, hl2⟩ : ∃ x, d2.getLast? = some x := ⟨_, List.getLast?_eq_some_getLast hne2⟩
      simp only [hl2] at h
      simp only [Out.ok.injEq] at h
      have hd2snoc : d2 = d2.dropLast ++ [h2] := by
        have := List.getLast?_eq_some_getLast hne2
        rw [hl2] at this
        simp only [Option.some.injEq] at this
        rw [this]; exact (List.dropLast_concat_getLast hne2).symm
      have hh2mem : h2 ∈ d2 := by rw [hd2snoc]; simp
      obtain ⟨hb, hrc, hidxn, hheadn, hnoff⟩ := openWriter_spec oo.opts h2.toSeg 0
        (toSeg_idxOK h2 (hd2.1.idx h2 hh2mem)) rfl
      have hshape : shape (d2.dropLast.map SegDisk.toSeg ++ [(openWriter oo.opts h2.toSeg 0).1]) = shapeD d2 := by
        conv => rhs; rw [hd2snoc]
        rw [shape_append, shape_toSeg]
        simp only [shapeD, List.map_append, List.map_cons, List.map_nil, shape, hb, hrc]
        rfl
      subst h
      refine ⟨⟨?_, ?_, ?_, ?_⟩, ?_, rfl⟩
      · simp only; rw [hshape]; exact hd2.1.shape
      · intro s hs
        simp only at hs
        rcases List.mem_append.mp hs with h1 | h1
        · obtain ⟨sd, hsd, rfl⟩ := List.mem_map.mp h1
          have : sd ∈ d2 := by rw [hd2snoc]; exact List.mem_append_left _ hsd
          exact toSeg_idxOK sd (hd2.1.idx sd this)
        · simp only [List.mem_singleton] at h1; subst h1; exact hidxn
      · intro _
        simp only
        rw [hshape, hnoff]
        have : shapeD d2 = shapeD d2.dropLast ++ [(h2.base, h2.recs)] := by
          conv => lhs; rw [hd2snoc]
          simp [shapeD]
        rw [this, shapeNext_snoc]
        rfl
      · intro _ h' hh'
        simp only at hh'
        rw [getLast?_append_ne _ _ (by simp)] at hh'
        simp only [List.getLast?_singleton, Option.some.injEq] at hh'
        subst hh'; exact hheadn
      · show absShape (shape _) = _
        rw [hshape]
        exact hd2.2

/-- **Open** on an empty directory: an empty log. -/
theorem open_empty (oo : OpenOpts) :
    ∃ l', Log.open [] oo = .ok l' ∧ Inv l' ∧ abs l' = ⟨[], 0⟩ ∧ l'.opts = oo.opts := by
  unfold Log.open
  simp only [List.getLast?_nil]
  have hshape0 : ShapeOK [((0 : Int), ([] : List Msg))] := by
    rw [shapeOK_singleton]
    refine ⟨by simp, ?_, ?_⟩
    · intro m hm; simp at hm
    · simp
  by_cases hro : oo.opts.readonly = true
  · simp only [hro, if_true]
    refine ⟨_, rfl, ⟨?_, ?_, ?_, ?_⟩, rfl, rfl⟩
    · exact hshape0
    · intro s hs
      simp only [List.mem_singleton] at hs; subst hs
      refine ⟨?_, ?_⟩
      · intro its hi; simp only [emptySeg, Option.some.injEq] at hi; subst hi; rfl
      · intro f hf; simp [emptySeg] at hf
    · intro hc; simp only at hc; rw [hro] at hc; simp at hc
    · intro hc; simp only at hc; rw [hro] at hc; simp at hc
  · have hro' : oo.opts.readonly = false := by
      cases hc : oo.opts.readonly with
      | true => exact absurd hc hro
      | false => rfl
    simp only [hro', Bool.false_eq_true, if_false, openWriter_empty]
    refine ⟨_, rfl, ⟨?_, ?_, ?_, ?_⟩, rfl, rfl⟩
    · exact hshape0
    · intro s hs
      simp only [List.mem_singleton] at hs; subst hs
      refine ⟨?_, ?_⟩
      · intro its hi; simp only [Option.some.injEq] at hi; subst hi; rfl
      · intro f hf; simp only [Option.some.injEq] at hf; subst hf; rfl
    · intro _; rfl
    · intro _ h' hh'
      simp only [List.getLast?_singleton, Option.some.injEq] at hh'
      subst hh'; exact ⟨[], rfl, _, rfl, rfl⟩

end Klev
