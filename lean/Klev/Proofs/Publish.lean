/-
`Log.publish` keeps the invariant and appends exactly the stamped batch to the L0 state
(with rollover at any size) — the step theorem behind C01 and C02.
-/
import Klev.Proofs.GetOK
namespace Klev

/-! ### shapes of the form `pre ++ [last]` -/

def SegShapeOK (br : Int × List Msg) : Prop :=
  br.2.Pairwise (fun a b => a.off < b.off) ∧ (∀ m ∈ br.2, br.1 ≤ m.off) ∧ 0 ≤ br.1

def ShapeR (s t : Int × List Msg) : Prop := s.1 < t.1 ∧ ∀ m ∈ s.2, m.off < t.1

theorem shapeOK_snoc_iff (pre : Shape) (last : Int × List Msg) :
    ShapeOK (pre ++ [last]) ↔
      (∀ br ∈ pre, SegShapeOK br ∧ br.2 ≠ []) ∧ pre.Pairwise ShapeR ∧ (∀ br ∈ pre, ShapeR br last) ∧
      SegShapeOK last := by
  constructor
  · intro h
    have hp := List.pairwise_append.mp h.order
    refine ⟨?_, hp.1, ?_, ?_⟩
    · intro br hbr
      have hm : br ∈ pre ++ [last] := List.mem_append_left _ hbr
      refine ⟨⟨h.sorted br hm, h.lower br hm, h.base0 br hm⟩, ?_⟩
      apply h.nonempty
      rw [List.dropLast_concat]; exact hbr
    · intro br hbr
      exact hp.2.2 br hbr last (by simp)
    · have hm : last ∈ pre ++ [last] := by simp
      exact ⟨h.sorted last hm, h.lower last hm, h.base0 last hm⟩
  · intro ⟨hpre, hpw, hr, hlast⟩
    refine ⟨by simp, ?_, ?_, ?_, ?_, ?_⟩
    · intro br hbr
      rcases List.mem_append.mp hbr with h | h
      · exact (hpre br h).1.1
      · simp only [List.mem_singleton] at h; subst h; exact hlast.1
    · intro br hbr
      rcases List.mem_append.mp hbr with h | h
      · exact (hpre br h).1.2.1
      · simp only [List.mem_singleton] at h; subst h; exact hlast.2.1
    · rw [List.pairwise_append]
      refine ⟨hpw, by simp, ?_⟩
      intro a ha b hb
      simp only [List.mem_singleton] at hb; subst hb
      exact hr a ha
    · intro br hbr
      rw [List.dropLast_concat] at hbr
      exact (hpre br hbr).2
    · intro br hbr
      rcases List.mem_append.mp hbr with h | h
      · exact (hpre br h).1.2.2
      · simp only [List.mem_singleton] at h; subst h; exact hlast.2.2

theorem shape_snoc (sh : Shape) (hne : sh ≠ []) : sh = sh.dropLast ++ [sh.getLast hne] :=
  (List.dropLast_concat_getLast hne).symm

theorem shapeNext_snoc (pre : Shape) (last : Int × List Msg) :
    shapeNext (pre ++ [last]) = recsNext last.1 last.2 := by
  unfold shapeNext
  simp

theorem flat_snoc (pre : Shape) (last : Int × List Msg) : flat (pre ++ [last]) = flat pre ++ last.2 := by
  unfold flat; simp [List.flatMap_append]

/-! ### stamping a batch -/

theorem stamp_fst (p : Params) (v : Ver) : ∀ (batch : List (Int × List UInt8 × List UInt8)) (off pos ts : Int),
    (stamp p v off pos ts batch).1 = Spec.stampSpec off batch := by
  intro batch
  induction batch with
  | nil => intro _ _ _; rfl
  | cons b rest ih =>
    intro off pos ts
    obtain ⟨t, k, vl⟩ := b
    simp only [stamp, Spec.stampSpec]
    rw [← ih]

theorem stamp_items (p : Params) (v : Ver) : ∀ (batch : List (Int × List UInt8 × List UInt8)) (off pos ts : Int),
    ((stamp p v off pos ts batch).2).map (fun it => (it.off, it.pos)) =
      (layoutFrom v pos (Spec.stampSpec off batch)).map (fun pm => (pm.2.off, pm.1)) := by
  intro batch
  induction batch with
  | nil => intro _ _ _; rfl
  | cons b rest ih =>
    intro off pos ts
    obtain ⟨t, k, vl⟩ := b
    simp only [stamp, Spec.stampSpec, layoutFrom, List.map_cons, newItem]
    rw [ih]

theorem stampSpec_length : ∀ (batch : List (Int × List UInt8 × List UInt8)) (off : Int),
    (Spec.stampSpec off batch).length = batch.length := by
  intro batch
  induction batch with
  | nil => intro _; rfl
  | cons b rest ih => intro off; obtain ⟨t, k, vl⟩ := b; simp [Spec.stampSpec, ih]

theorem stampSpec_ge : ∀ (batch : List (Int × List UInt8 × List UInt8)) (off : Int),
    ∀ m ∈ Spec.stampSpec off batch, off ≤ m.off := by
  intro batch
  induction batch with
  | nil => intro _ m h; cases h
  | cons b rest ih =>
    intro off m h
    obtain ⟨t, k, vl⟩ := b
    simp only [Spec.stampSpec, List.mem_cons] at h
    rcases h with rfl | h
    · exact Int.le_refl _
    · have := ih (off + 1) m h; omega

theorem stampSpec_sorted : ∀ (batch : List (Int × List UInt8 × List UInt8)) (off : Int),
    (Spec.stampSpec off batch).Pairwise (fun a b => a.off < b.off) := by
  intro batch
  induction batch with
  | nil => intro _; simp [Spec.stampSpec]
  | cons b rest ih =>
    intro off
    obtain ⟨t, k, vl⟩ := b
    simp only [Spec.stampSpec, List.pairwise_cons]
    refine ⟨?_, ih _⟩
    intro m hm
    have := stampSpec_ge rest (off + 1) m hm
    omega

theorem stampSpec_last : ∀ (batch : List (Int × List UInt8 × List UInt8)) (off : Int) (m : Msg),
    (Spec.stampSpec off batch).getLast? = some m → m.off + 1 = off + batch.length := by
  intro batch
  induction batch with
  | nil => intro _ m h; simp [Spec.stampSpec] at h
  | cons b rest ih =>
    intro off m h
    obtain ⟨t, k, vl⟩ := b
    simp only [Spec.stampSpec] at h
    cases hr : rest with
    | nil =>
      simp only [hr, Spec.stampSpec, List.getLast?_singleton, Option.some.injEq] at h
      subst h; simp
    | cons r rs =>
      have hne : Spec.stampSpec (off + 1) rest ≠ [] := by
        rw [hr]; obtain ⟨t', k', v'⟩ := r; simp [Spec.stampSpec]
      rw [List.getLast?_cons_of_ne_nil hne] at h  
      have := ih (off + 1) m h
      have hl : rest.length = rs.length + 1 := by rw [hr]; rfl
      simp only [List.length_cons] at this ⊢; omega

/-! ### layout of an appended file -/

theorem layoutFrom_append (v : Ver) : ∀ (a b : List Msg) (p : Int),
    layoutFrom v p (a ++ b) = layoutFrom v p a ++ layoutFrom v (sizeFrom v p a) b := by
  intro a
  induction a with
  | nil => intro b p; rfl
  | cons m ms ih => intro b p; simp [layoutFrom, sizeFrom, ih]

theorem itemsFor_append {v : Ver} {recs ms : List Msg} {old its : List Item}
    (h : ItemsFor v recs old)
    (h2 : its.map (fun it => (it.off, it.pos)) =
      (layoutFrom v (logSize v recs) ms).map (fun pm => (pm.2.off, pm.1))) :
    ItemsFor v (recs ++ ms) (old ++ its) := by
  unfold ItemsFor layout at *
  rw [layoutFrom_append, List.map_append, List.map_append, h, h2]
  rfl

end Klev

namespace Klev

theorem segs_snoc {l : Log} {h : Seg} (hl : l.segs.getLast? = some h) :
    l.segs = l.segs.dropLast ++ [h] := by
  have hne : l.segs ≠ [] := by intro he; rw [he] at hl; simp at hl
  have := List.getLast?_eq_some_getLast hne
  rw [hl] at this
  simp only [Option.some.injEq] at this
  rw [this]
  exact (List.dropLast_concat_getLast hne).symm

theorem shape_append (a b : List Seg) : shape (a ++ b) = shape a ++ shape b := by
  simp [shape]

theorem openWriter_empty (o : Opts) (base nt : Int) :
    openWriter o (emptySeg base) nt =
      ({ base := base, ver := o.nsv, recs := [], idxf := some ⟨o.nsv, []⟩, mem := some [] }, base, nt) := by
  simp [openWriter, emptySeg, lastOffOr]

theorem inv_getLast (l : Log) (hinv : Inv l) : ∃ h, l.segs.getLast? = some h := by
  have hne : l.segs ≠ [] := by
    intro he
    have := hinv.shape.ne
    rw [he] at this; exact this rfl
  exact ⟨_, List.getLast?_eq_some_getLast hne⟩

/-- The L0 state through the `pre ++ [head]` view. -/
theorem abs_snoc {l : Log} {h : Seg} (hl : l.segs.getLast? = some h) :
    abs l = ⟨flat (shape l.segs.dropLast) ++ h.recs, recsNext h.base h.recs⟩ := by
  unfold abs absShape
  have := segs_snoc hl
  have hs : shape l.segs = shape l.segs.dropLast ++ [(h.base, h.recs)] := by
    conv => lhs; rw [this]
    rw [shape_append]; rfl
  rw [hs, shapeNext_snoc]
  have := flat_snoc (shape l.segs.dropLast) (h.base, h.recs)
  unfold flat at this
  rw [this]
  rfl

theorem recsNext_gt (base : Int) (recs : List Msg) (hs : recs.Pairwise (fun a b => a.off < b.off)) :
    ∀ m ∈ recs, m.off < recsNext base recs := by
  intro m hm
  unfold recsNext
  have hne : recs ≠ [] := List.ne_nil_of_mem hm
  rw [List.getLast?_eq_some_getLast hne]
  simp only
  obtain ⟨k, hk, rfl⟩ := List.getElem_of_mem hm
  rw [List.getLast_eq_getElem]
  by_cases hc : k = recs.length - 1
  · subst hc; omega
  · have := List.pairwise_iff_getElem.mp hs k (recs.length - 1) hk (by omega) (by omega)
    omega

/-- Rollover keeps the invariant and the L0 state. -/
theorem rollover_spec (l : Log) (hinv : Inv l) (hro : l.opts.readonly = false) :
    Inv l.rollover ∧ abs l.rollover = abs l ∧ l.rollover.opts = l.opts := by
  obtain ⟨h, hl⟩ := inv_getLast l hinv
  unfold Log.rollover
  rw [hl]
  simp only
  by_cases hroll : needsRollover l.opts h = true
  · rw [if_pos hroll]
    simp only [openWriter_empty]
    have hsn := segs_snoc hl
    have hs : shape l.segs = shape l.segs.dropLast ++ [(h.base, h.recs)] := by
      conv => lhs; rw [hsn]
      rw [shape_append]; rfl
    have hsh := hinv.shape
    rw [hs, shapeOK_snoc_iff] at hsh
    obtain ⟨hpre, hpw, hr, hlast⟩ := hsh
    have hnext := hinv.next hro
    rw [hs, shapeNext_snoc] at hnext
    simp only at hnext
    have hrne : h.recs ≠ [] := by
      unfold needsRollover at hroll
      simp only [Bool.and_eq_true, Bool.not_eq_true', decide_eq_true_eq] at hroll
      intro he; rw [he] at hroll; simp at hroll
    have hgt := recsNext_gt h.base h.recs hlast.1
    have hge := recsNext_ge h.base h.recs hlast.2.1
    -- the new shape: … ++ [old head] ++ [(next, [])]
    have hs2 : shape (l.segs.dropLast ++ [h, (⟨l.wNextOff, l.opts.nsv, [], some ⟨l.opts.nsv, []⟩, some []⟩ : Seg)]) =
        (shape l.segs.dropLast ++ [(h.base, h.recs)]) ++ [(l.wNextOff, [])] := by
      rw [shape_append]; simp [shape]
    refine ⟨⟨?_, ?_, ?_, ?_⟩, ?_, trivial⟩
    · simp only
      rw [hs2, shapeOK_snoc_iff]
      obtain ⟨m0, hm0⟩ : ∃ m0, m0 ∈ h.recs := by
        cases hrc : h.recs with
        | nil => exact absurd hrc hrne
        | cons a as => exact ⟨a, by simp⟩
      have hb_lt : h.base < l.wNextOff := by
        have := hlast.2.1 m0 hm0
        have := hgt m0 hm0
        omega
      refine ⟨?_, ?_, ?_, ?_⟩
      · intro br hbr
        rcases List.mem_append.mp hbr with hb | hb
        · exact hpre br hb
        · simp only [List.mem_singleton] at hb; subst hb; exact ⟨hlast, hrne⟩
      · rw [List.pairwise_append]
        refine ⟨hpw, by simp, ?_⟩
        intro a ha b hb
        simp only [List.mem_singleton] at hb; subst hb
        exact hr a ha
      · intro br hbr
        rcases List.mem_append.mp hbr with hb | hb
        · have hrb := hr br hb
          refine ⟨by have := hrb.1; simp only at this ⊢; omega, ?_⟩
          intro m hm
          have := hrb.2 m hm
          simp only at this ⊢; omega
        · simp only [List.mem_singleton] at hb; subst hb
          refine ⟨hb_lt, ?_⟩
          intro m hm
          have := hgt m hm
          simp only at hm ⊢; omega
      · refine ⟨by simp, ?_, ?_⟩
        · intro m hm; simp at hm
        · have := hlast.2.2; simp only at this ⊢; omega
    · intro s hs'
      simp only at hs'
      rcases List.mem_append.mp hs' with hb | hb
      · exact hinv.idx s (by rw [hsn]; exact List.mem_append_left _ hb)
      · simp only [List.mem_cons, List.mem_singleton, List.not_mem_nil, or_false] at hb
        rcases hb with rfl | rfl
        · exact hinv.idx _ (by rw [hsn]; simp)
        · refine ⟨?_, ?_⟩
          · intro its hi
            simp only [Option.some.injEq] at hi; subst hi
            rfl
          · intro f hf
            simp only [Option.some.injEq] at hf; subst hf
            rfl
    · intro _
      simp only
      rw [hs2, shapeNext_snoc]
      rfl
    · intro _ h' hh'
      simp only at hh'
      rw [List.getLast?_append] at hh'
      simp only [List.getLast?_cons_cons, List.getLast?_singleton, Option.some_or, Option.some.injEq] at hh'
      subst hh'
      exact ⟨[], rfl, _, rfl, rfl⟩
    · unfold abs absShape
      simp only
      rw [hs2, hs]
      have h1 := flat_snoc (shape l.segs.dropLast ++ [(h.base, h.recs)]) (l.wNextOff, [])
      unfold flat at h1
      rw [h1, shapeNext_snoc, shapeNext_snoc]
      simp only [List.append_nil]
      congr 1
  · rw [if_neg hroll]
    exact ⟨hinv, rfl, rfl⟩

end Klev

namespace Klev

theorem stamp_last (p : Params) (v : Ver) (batch : List (Int × List UInt8 × List UInt8)) (off pos ts : Int) :
    ((stamp p v off pos ts batch).2.getLast?).map (·.off) =
      ((Spec.stampSpec off batch).getLast?).map (·.off) := by
  have h := stamp_items p v batch off pos ts
  have h1 := congrArg (fun l => (l.map (·.1)).getLast?) h
  simp only [List.map_map, Function.comp_def] at h1
  have h2 : (layoutFrom v pos (Spec.stampSpec off batch)).map (fun pm => pm.2.off) =
      (Spec.stampSpec off batch).map (·.off) := by
    have h3 := congrArg (List.map (fun (m : Msg) => m.off)) (layoutFrom_map_snd v pos (Spec.stampSpec off batch))
    simpa [List.map_map, Function.comp_def] using h3
  rw [h2] at h1
  simpa [List.getLast?_map] using h1

/-- Appending a batch: the invariant is kept, the result is `next + n`, the L0 state gains
exactly the stamped messages. -/
theorem append_spec (l : Log) (hinv : Inv l) (hro : l.opts.readonly = false)
    (batch : List (Int × List UInt8 × List UInt8)) :
    Inv (l.append batch).1 ∧
    (l.append batch).2 = .ok ((abs l).next + batch.length) ∧
    abs (l.append batch).1 =
      ⟨(abs l).live ++ Spec.stampSpec (abs l).next batch, (abs l).next + batch.length⟩ := by
  obtain ⟨h, hl⟩ := inv_getLast l hinv
  have hsn := segs_snoc hl
  have hs : shape l.segs = shape l.segs.dropLast ++ [(h.base, h.recs)] := by
    conv => lhs; rw [hsn]
    rw [shape_append]; rfl
  have hsh := hinv.shape
  rw [hs, shapeOK_snoc_iff] at hsh
  obtain ⟨hpre, hpw, hr, hlast⟩ := hsh
  have hnext := hinv.next hro
  rw [hs, shapeNext_snoc] at hnext
  simp only at hnext
  have habs := abs_snoc hl
  have hanext : (abs l).next = l.wNextOff := by rw [habs, hnext]
  obtain ⟨its0, hm0, f0, hf0, hfi0⟩ := (hinv.head hro h hl).loaded
  have hidx := hinv.idx h (by rw [hsn]; simp)
  have hgt := recsNext_gt h.base h.recs hlast.1
  have hge := recsNext_ge h.base h.recs hlast.2.1
  unfold Log.append
  rw [hl]
  simp only
  -- names for the stamped batch
  have hfst := stamp_fst l.opts.params h.ver batch l.wNextOff (logSize h.ver h.recs) l.wNextTime
  have hitems := stamp_items l.opts.params h.ver batch l.wNextOff (logSize h.ver h.recs) l.wNextTime
  have hlastoff := stamp_last l.opts.params h.ver batch l.wNextOff (logSize h.ver h.recs) l.wNextTime
  generalize hst : stamp l.opts.params h.ver l.wNextOff (logSize h.ver h.recs) l.wNextTime batch = st at *
  rw [hfst] 
  have hms_ge := stampSpec_ge batch l.wNextOff
  have hms_sorted := stampSpec_sorted batch l.wNextOff
  -- next offset after the append
  have hnx : (lastOffTs st.2 l.wNextOff l.wNextTime).1 = l.wNextOff + batch.length := by
    unfold lastOffTs
    cases hgl : st.2.getLast? with
    | none =>
      rw [hgl] at hlastoff
      simp only [Option.map_none] at hlastoff
      have : (Spec.stampSpec l.wNextOff batch) = [] := by
        cases hc : (Spec.stampSpec l.wNextOff batch).getLast? with
        | none => exact List.getLast?_eq_none_iff.mp hc
        | some x => rw [hc] at hlastoff; simp at hlastoff
      have hlen := stampSpec_length batch l.wNextOff
      rw [this] at hlen
      simp only [List.length_nil] at hlen
      simp [← hlen]
    | some it =>
      rw [hgl] at hlastoff
      cases hc : (Spec.stampSpec l.wNextOff batch).getLast? with
      | none => rw [hc] at hlastoff; simp at hlastoff
      | some x =>
        rw [hc] at hlastoff
        simp only [Option.map_some, Option.some.injEq] at hlastoff
        have := stampSpec_last batch l.wNextOff x hc
        simp only; omega
  have hs2 : shape (l.segs.dropLast ++ [(⟨h.base, h.ver, h.recs ++ Spec.stampSpec l.wNextOff batch,
        h.idxf.map (fun f => ⟨f.ver, f.items ++ st.2⟩), h.mem.map (· ++ st.2)⟩ : Seg)]) =
      shape l.segs.dropLast ++ [(h.base, h.recs ++ Spec.stampSpec l.wNextOff batch)] := by
    rw [shape_append]; simp [shape]
  have hnewnext : recsNext h.base (h.recs ++ Spec.stampSpec l.wNextOff batch) = l.wNextOff + batch.length := by
    unfold recsNext
    cases hc : (Spec.stampSpec l.wNextOff batch).getLast? with
    | none =>
      have hnil : Spec.stampSpec l.wNextOff batch = [] := List.getLast?_eq_none_iff.mp hc
      have hlen := stampSpec_length batch l.wNextOff
      rw [hnil] at hlen
      simp only [List.length_nil] at hlen
      rw [hnil, List.append_nil, ← hlen]
      simp only [Int.natCast_zero, Int.add_zero]
      rw [hnext]; rfl
    | some x =>
      rw [List.getLast?_append, hc]
      simp only [Option.some_or]
      have := stampSpec_last batch l.wNextOff x hc
      omega
  refine ⟨⟨?_, ?_, ?_, ?_⟩, ?_, ?_⟩
  · simp only
    rw [hs2, shapeOK_snoc_iff]
    refine ⟨hpre, hpw, ?_, ?_, ?_, hlast.2.2⟩
    · intro br hbr; exact ⟨(hr br hbr).1, (hr br hbr).2⟩
    · rw [List.pairwise_append]
      refine ⟨hlast.1, hms_sorted, ?_⟩
      intro a ha b hb
      have := hgt a ha
      have := hms_ge b hb
      omega
    · intro m hm
      rcases List.mem_append.mp hm with h1 | h1
      · exact hlast.2.1 m h1
      · have := hms_ge m h1; simp only at this ⊢; omega
  · intro s hs'
    simp only at hs'
    rcases List.mem_append.mp hs' with hb | hb
    · exact hinv.idx s (by rw [hsn]; exact List.mem_append_left _ hb)
    · simp only [List.mem_singleton] at hb
      subst hb
      refine ⟨?_, ?_⟩
      · intro its hi
        simp only [hm0, Option.map_some, Option.some.injEq] at hi
        subst hi
        exact itemsFor_append (hidx.mem its0 hm0) hitems
      · intro f hf
        simp only [hf0, Option.map_some, Option.some.injEq] at hf
        subst hf
        simp only
        rw [hfi0]
        exact itemsFor_append (hidx.mem its0 hm0) hitems
  · intro _
    simp only
    rw [hs2, shapeNext_snoc, hnx, hnewnext]
  · intro _ h' hh'
    simp only at hh'
    rw [List.getLast?_append] at hh'
    simp only [List.getLast?_singleton, Option.some_or, Option.some.injEq] at hh'
    subst hh'
    refine ⟨its0 ++ st.2, by simp [hm0], ⟨f0.ver, f0.items ++ st.2⟩, by simp [hf0], by simp [hfi0]⟩
  · rw [hnx, hanext]
  · unfold abs absShape
    simp only
    rw [hs2, hs]
    have h1 := flat_snoc (shape l.segs.dropLast) (h.base, h.recs ++ Spec.stampSpec l.wNextOff batch)
    have h2 := flat_snoc (shape l.segs.dropLast) (h.base, h.recs)
    unfold flat at h1 h2
    rw [h1, h2, shapeNext_snoc, shapeNext_snoc]
    simp only
    rw [hnewnext, ← hnext, List.append_assoc]

/-- **Publish step**: the invariant is kept; the result and the new L0 state are what
`PublishOK` says (offsets `next … next+n-1` in order, caller offsets ignored, returns
`next + n`, also for the empty batch and across a rollover at any size). -/
theorem publish_step (l : Log) (hinv : Inv l) (batch : List (Int × List UInt8 × List UInt8)) :
    Inv (l.publish batch).1 ∧
    Spec.PublishOK l.opts.readonly (abs l) batch (l.publish batch).2 (abs (l.publish batch).1) := by
  unfold Log.publish Spec.PublishOK
  cases hro : l.opts.readonly with
  | true => simp [hinv]
  | false =>
    simp only [Bool.false_eq_true, if_false]
    obtain ⟨hinv1, habs1, hopts1⟩ := rollover_spec l hinv hro
    obtain ⟨hinv2, hres, habs2⟩ := append_spec l.rollover hinv1 (by rw [hopts1]; exact hro) batch
    rw [habs1] at hres habs2
    refine ⟨hinv2, hres, ?_, ?_⟩
    · rw [habs2]
    · rw [habs2]

end Klev
