/-
Reachability: every state reached from an empty directory by any sequence of API calls
(publish, delete, reads, GC, close + reopen with any options, index removal, migrate,
recover) satisfies the invariant, and its content evolves exactly by the L0 list
semantics (append what was published, remove what Delete reported) — the fidelity
theorem behind C01, C02, C11, C12, C17.
-/
import Klev.Proofs.Open
namespace Klev

theorem get_loaded (l : Log) (hinv : Inv l) (off : Int) : Loaded l (l.get off).1 := by
  unfold Log.get
  split
  · exact Loaded.refl hinv
  · exact Loaded.refl hinv
  · exact Loaded.refl hinv
  · next i _ =>
    rcases withIndex_loaded l i.toNat hinv with ⟨hw, _⟩ | ⟨l1, s, its, c, hw, hl1⟩
    · rw [hw]; exact Loaded.refl hinv
    · rw [hw]
      simp only
      split
      · split <;> exact hl1
      · split
        · rcases withIndex_loaded l1 (i.toNat - 1) hl1.inv with ⟨hw2, _⟩ | ⟨l2, s2, its2, c2, hw2, hl2⟩
          · rw [hw2]; exact hl1
          · rw [hw2]; exact hl1.trans hl2
        · exact hl1
      · exact hl1

/-- GC drops reader indexes: shape, head and content are untouched. -/
theorem gc_inv (l : Log) (hinv : Inv l) : Inv l.gc ∧ abs l.gc = abs l := by
  have hmap : ∀ (segs : List Seg) (n k : Nat),
      shape ((segs.zipIdx k).map (fun (x : Seg × Nat) => if x.2 + 1 == n then x.1 else { x.1 with mem := none })) = shape segs := by
    intro segs n
    induction segs with
    | nil => intro k; rfl
    | cons s rest ih =>
      intro k
      simp only [List.zipIdx_cons, List.map_cons, shape] at ih ⊢
      rw [ih (k + 1)]
      congr 1
      split <;> rfl
  have hshape : shape l.gc.segs = shape l.segs := by
    unfold Log.gc
    exact hmap l.segs l.segs.length 0
  refine ⟨⟨by rw [hshape]; exact hinv.shape, ?_, ?_, ?_⟩, by unfold abs; rw [hshape]⟩
  · intro s hs
    unfold Log.gc at hs
    simp only at hs
    obtain ⟨⟨s0, k⟩, hmem, rfl⟩ := List.mem_map.mp hs
    have hs0 : s0 ∈ l.segs := by
      have := List.mem_zipIdx hmem
      exact (List.mem_iff_getElem.mpr ⟨k - 0, by omega, by simpa using this.2.2.symm⟩)
    simp only
    split
    · exact hinv.idx s0 hs0
    · exact ⟨by intro its hi; simp at hi, (hinv.idx s0 hs0).idx⟩
  · intro hro
    rw [hshape]
    exact hinv.next hro
  · intro hro h hh
    -- the last segment keeps its index
    have hlast : l.gc.segs.getLast? = l.segs.getLast? := by
      unfold Log.gc
      simp only
      rw [List.getLast?_eq_getElem?, List.getLast?_eq_getElem?]
      simp only [List.length_map, List.length_zipIdx]
      by_cases hl : l.segs.length = 0
      · have : l.segs = [] := List.eq_nil_of_length_eq_zero hl
        simp [this]
      · have hlt : l.segs.length - 1 < l.segs.length := by omega
        rw [List.getElem?_eq_getElem (by simpa using hlt), List.getElem?_eq_getElem hlt]
        simp only [List.getElem_map, List.getElem_zipIdx, Nat.zero_add]
        have : (l.segs.length - 1 + 1 == l.segs.length) = true := by
          simp only [beq_iff_eq]; omega
        simp [this]
    rw [hlast] at hh
    exact hinv.head hro h hh

end Klev

namespace Klev

/-- One API-level step of a history. `reopen` is Close followed — while closed — by removal
of the index files of the listed segments, an optional package-level Migrate, an optional
package-level Recover, and then Open with freshly drawn options (Check, Recover, eager
migration, versions, rollover, read-only…). A failed Open leaves the files as they are
(the history goes on with the next attempt). -/
inductive Op where
  | publish (batch : List (Int × List UInt8 × List UInt8))
  | delete (offs : List Int)
  | consume (off : Int) (mc : Nat)
  | get (off : Int)
  | gc
  | reopen (rm : List Int) (mig : Option Ver) (rec : Bool) (oo : OpenOpts)

def closedDisk (l : Log) (rm : List Int) (mig : Option Ver) (rec : Bool) : List SegDisk :=
  let d1 := l.disk.map (fun sd => if rm.contains sd.base then { sd with idxf := none } else sd)
  let d2 := match mig with
    | some v => d1.map (segMigrate l.opts.params v v)
    | none => d1
  if rec then mapLast (segRecover l.opts.params) d2 else d2

def stepOp (l : Log) : Op → Log
  | .publish b => (l.publish b).1
  | .delete o => (l.delete o).1
  | .consume off mc => (l.consume off mc).1
  | .get off => (l.get off).1
  | .gc => l.gc
  | .reopen rm mig rec oo =>
    match Log.open (closedDisk l rm mig rec) oo with
    | .ok l' => l'
    | .err _ => l

/-- The L0 list semantics of a step: append what was published (stamped from `next`),
remove exactly what Delete reported, nothing else ever changes. -/
def specStep (s : Spec) (l : Log) : Op → Spec
  | .publish b =>
    if l.opts.readonly then s else ⟨s.live ++ Spec.stampSpec s.next b, s.next + b.length⟩
  | .delete o =>
    match (l.delete o).2 with
    | .ok (del, _) => ⟨Spec.removeAll s.live del, s.next⟩
    | .err _ => s
  | _ => s

theorem closedDisk_ok (l : Log) (hinv : Inv l) (rm : List Int) (mig : Option Ver) (rec : Bool) :
    DiskOK (closedDisk l rm mig rec) ∧ absDisk (closedDisk l rm mig rec) = abs l := by
  obtain ⟨h0, ha0⟩ := disk_of_inv l hinv
  obtain ⟨h1, ha1⟩ := rmidx_ok l.disk h0 rm
  unfold closedDisk
  simp only
  generalize hd1 : l.disk.map (fun sd => if rm.contains sd.base then { sd with idxf := none } else sd) = d1 at h1 ha1
  have h2 : DiskOK (match mig with
      | some v => d1.map (segMigrate l.opts.params v v)
      | none => d1) ∧ absDisk (match mig with
      | some v => d1.map (segMigrate l.opts.params v v)
      | none => d1) = abs l := by
    cases mig with
    | none => exact ⟨h1, ha1.trans ha0⟩
    | some v =>
      have := migrate_ok d1 h1 l.opts.params v v
      exact ⟨this.1, this.2.trans (ha1.trans ha0)⟩
  generalize hd2 : (match mig with
      | some v => d1.map (segMigrate l.opts.params v v)
      | none => d1) = d2 at h2
  split
  · have := recover_ok d2 h2.1 l.opts.params
    exact ⟨this.1, this.2.trans h2.2⟩
  · exact h2

/-- **Step theorem.** Every API step keeps the invariant and changes the content exactly as
the L0 list semantics says. -/
theorem step_inv_abs (l : Log) (hinv : Inv l) (op : Op) :
    Inv (stepOp l op) ∧ abs (stepOp l op) = specStep (abs l) l op := by
  cases op with
  | publish b =>
    obtain ⟨h1, h2⟩ := publish_step l hinv b
    refine ⟨h1, ?_⟩
    unfold Spec.PublishOK at h2
    simp only [stepOp, specStep]
    cases hro : l.opts.readonly with
    | true => simp only [hro, if_true] at h2 ⊢; exact h2.2
    | false =>
      simp only [hro, Bool.false_eq_true, if_false] at h2 ⊢
      obtain ⟨_, hn, hl⟩ := h2
      cases habs : abs (l.publish b).1 with
      | mk live next =>
        rw [habs] at hn hl
        simp only at hn hl
        rw [hn, hl]
  | delete o =>
    obtain ⟨h1, h2⟩ := delete_step l hinv o
    refine ⟨h1, ?_⟩
    simp only [stepOp, specStep]
    unfold Spec.DeleteOK at h2
    cases hro : l.opts.readonly with
    | true =>
      simp only [hro, if_true] at h2
      rw [h2.1]; exact h2.2
    | false =>
      simp only [hro, Bool.false_eq_true, if_false] at h2
      by_cases hem : o = []
      · simp only [hem, if_true] at h2 ⊢
        have h3 := h2.1
        rw [h3]
        simp only [Spec.removeAll, List.contains_nil, Bool.not_false]
        rw [h2.2, List.filter_eq_self.mpr (by intro a _; rfl)]
      · simp only [hem, if_false] at h2
        by_cases hneg : ∃ x ∈ o, x < 0
        · simp only [hneg, if_true] at h2
          rw [h2.1]; exact h2.2
        · simp only [hneg, if_false] at h2
          cases hr : (l.delete o).2 with
          | err e =>
            rw [hr] at h2
            exact h2.1
          | ok r =>
            obtain ⟨del, sz⟩ := r
            rw [hr] at h2
            simp only at h2 ⊢
            obtain ⟨_, _, hl, hn, _⟩ := h2
            cases habs : abs (l.delete o).1 with
            | mk live next =>
              rw [habs] at hl hn
              simp only at hl hn
              rw [hl, hn]
  | consume off mc =>
    exact ⟨(consume_inv l hinv off mc).1, (consume_inv l hinv off mc).2⟩
  | get off =>
    exact ⟨(get_loaded l hinv off).inv, (get_loaded l hinv off).abs⟩
  | gc => exact gc_inv l hinv
  | reopen rm mig rec oo =>
    simp only [stepOp, specStep]
    obtain ⟨hd, ha⟩ := closedDisk_ok l hinv rm mig rec
    cases ho : Log.open (closedDisk l rm mig rec) oo with
    | err e => exact ⟨hinv, rfl⟩
    | ok l' =>
      obtain ⟨h1, h2, _⟩ := open_spec _ hd oo l' ho
      exact ⟨h1, h2.trans ha⟩

/-- A history from an empty directory. -/
def runOps (l : Log) : List Op → Log
  | [] => l
  | op :: rest => runOps (stepOp l op) rest

def specRun (s : Spec) (l : Log) : List Op → Spec
  | [] => s
  | op :: rest => specRun (specStep s l op) (stepOp l op) rest

/-- **Fidelity / reachability.** From any state satisfying the invariant — in particular
from an empty directory opened with any options — after any finite sequence of steps the
invariant holds and the content is the L0 list semantics of the history. -/
theorem run_inv_abs (l : Log) (hinv : Inv l) (ops : List Op) :
    Inv (runOps l ops) ∧ abs (runOps l ops) = specRun (abs l) l ops := by
  induction ops generalizing l with
  | nil => exact ⟨hinv, rfl⟩
  | cons op rest ih =>
    obtain ⟨h1, h2⟩ := step_inv_abs l hinv op
    have := ih (stepOp l op) h1
    simp only [runOps, specRun]
    rw [← h2]
    exact this

theorem reach_from_empty (oo : OpenOpts) (ops : List Op) :
    ∃ l0, Log.open [] oo = .ok l0 ∧ Inv (runOps l0 ops) ∧
      abs (runOps l0 ops) = specRun ⟨[], 0⟩ l0 ops := by
  obtain ⟨l0, ho, hinv, habs, _⟩ := open_empty oo
  refine ⟨l0, ho, (run_inv_abs l0 hinv ops).1, ?_⟩
  rw [(run_inv_abs l0 hinv ops).2, habs]

end Klev

namespace Klev

/-- The offsets assigned along a history, in order of assignment. -/
def assigned (l : Log) : List Op → List Int
  | [] => []
  | .publish b :: rest =>
    (if l.opts.readonly then [] else (Spec.stampSpec (abs l).next b).map (·.off)) ++
      assigned (stepOp l (.publish b)) rest
  | op :: rest => assigned (stepOp l op) rest

theorem stampSpec_lt : ∀ (batch : List (Int × List UInt8 × List UInt8)) (off : Int),
    ∀ m ∈ Spec.stampSpec off batch, m.off < off + batch.length := by
  intro batch
  induction batch with
  | nil => intro _ m h; cases h
  | cons b rest ih =>
    intro off m h
    obtain ⟨t, k, vl⟩ := b
    simp only [Spec.stampSpec, List.mem_cons] at h
    simp only [List.length_cons]
    rcases h with rfl | h
    · simp only; omega
    · have := ih (off + 1) m h; omega

theorem step_next_ge (l : Log) (hinv : Inv l) (op : Op) : (abs l).next ≤ (abs (stepOp l op)).next := by
  rw [(step_inv_abs l hinv op).2]
  cases op with
  | publish b =>
    simp only [specStep]
    split
    · exact Int.le_refl _
    · simp only; omega
  | delete o =>
    simp only [specStep]
    split <;> exact Int.le_refl _
  | consume _ _ => exact Int.le_refl _
  | get _ => exact Int.le_refl _
  | gc => exact Int.le_refl _
  | reopen _ _ _ _ => exact Int.le_refl _

/-- **Never reused.** Along any history (deletes of the newest messages, of everything,
close + reopen with any options included) the offsets assigned by Publish are strictly
increasing in order of assignment — in particular no offset is ever assigned twice — and
all lie at or above the next offset of the starting state. -/
theorem assigned_increasing (l : Log) (hinv : Inv l) (ops : List Op) :
    (assigned l ops).Pairwise (fun a b => a < b) ∧ ∀ x ∈ assigned l ops, (abs l).next ≤ x := by
  induction ops generalizing l with
  | nil => exact ⟨by simp [assigned], by intro x h; cases h⟩
  | cons op rest ih =>
    have hstep := step_inv_abs l hinv op
    have hge := step_next_ge l hinv op
    obtain ⟨ih1, ih2⟩ := ih (stepOp l op) hstep.1
    cases op with
    | publish b =>
      simp only [assigned]
      cases hro : l.opts.readonly with
      | true =>
        simp only [if_true, List.nil_append]
        exact ⟨ih1, fun x hx => Int.le_trans hge (ih2 x hx)⟩
      | false =>
        simp only [Bool.false_eq_true, if_false]
        have hnext : (abs (stepOp l (.publish b))).next = (abs l).next + b.length := by
          rw [hstep.2]; simp [specStep, hro]
        refine ⟨?_, ?_⟩
        · rw [List.pairwise_append]
          refine ⟨?_, ih1, ?_⟩
          · rw [List.pairwise_map]
            exact stampSpec_sorted b _
          · intro x hx y hy
            obtain ⟨m, hm, rfl⟩ := List.mem_map.mp hx
            have := stampSpec_lt b _ m hm
            have := ih2 y hy
            omega
        · intro x hx
          rcases List.mem_append.mp hx with h | h
          · obtain ⟨m, hm, rfl⟩ := List.mem_map.mp h
            exact stampSpec_ge b _ m hm
          · have := ih2 x h; omega
    | delete o => exact ⟨ih1, fun x hx => Int.le_trans hge (ih2 x hx)⟩
    | consume off mc => exact ⟨ih1, fun x hx => Int.le_trans hge (ih2 x hx)⟩
    | get off => exact ⟨ih1, fun x hx => Int.le_trans hge (ih2 x hx)⟩
    | gc => exact ⟨ih1, fun x hx => Int.le_trans hge (ih2 x hx)⟩
    | reopen rm mig rec oo => exact ⟨ih1, fun x hx => Int.le_trans hge (ih2 x hx)⟩

end Klev
