/-
Reads only load indexes: they keep the invariant and the shape (hence the L0 state).
-/
import Klev.Proofs.ConsumeOK
namespace Klev

/-- `l'` is `l` with some indexes loaded / rebuilt. -/
structure Loaded (l l' : Log) : Prop where
  inv : Inv l'
  shape : shape l'.segs = shape l.segs
  opts : l'.opts = l.opts
  nextOff : l'.wNextOff = l.wNextOff
  nextTime : l'.wNextTime = l.wNextTime

theorem Loaded.refl {l : Log} (h : Inv l) : Loaded l l := ⟨h, rfl, rfl, rfl, rfl⟩

theorem Loaded.trans {a b c : Log} (h1 : Loaded a b) (h2 : Loaded b c) : Loaded a c :=
  ⟨h2.inv, h2.shape.trans h1.shape, h2.opts.trans h1.opts, h2.nextOff.trans h1.nextOff,
   h2.nextTime.trans h1.nextTime⟩

theorem Loaded.abs {l l' : Log} (h : Loaded l l') : abs l' = abs l := by
  unfold Klev.abs; rw [h.shape]

theorem Loaded.len {l l' : Log} (h : Loaded l l') : l'.segs.length = l.segs.length := by
  rw [← shape_length l'.segs, h.shape, shape_length]

/-- `withIndex` either fails (index out of range) or loads. -/
theorem withIndex_loaded (l : Log) (i : Nat) (hinv : Inv l) :
    (withIndex l i = none ∧ l.segs.length ≤ i) ∨
    (∃ l1 s its c, withIndex l i = some (l1, s, its, c) ∧ Loaded l l1) := by
  by_cases hi : i < l.segs.length
  · right
    obtain ⟨l1, s', its, c, hw, _, _, _, _, _, hinv1, hsh1, ho, hn, ht, _⟩ := withIndex_spec l i hinv hi
    exact ⟨l1, s', its, c, hw, ⟨hinv1, hsh1, ho, hn, ht⟩⟩
  · left
    refine ⟨?_, by omega⟩
    unfold withIndex
    rw [List.getElem?_eq_none (by omega)]

theorem consume_loaded (l : Log) (hinv : Inv l) (off : Int) (mc : Nat) :
    Loaded l (l.consume off mc).1 := by
  unfold Log.consume
  split
  · exact Loaded.refl hinv
  · next i _ =>
    rcases withIndex_loaded l i.toNat hinv with ⟨hw, _⟩ | ⟨l1, s, its, c, hw, hl1⟩
    · rw [hw]; exact Loaded.refl hinv
    · rw [hw]
      simp only
      split
      · split
        · rcases withIndex_loaded l1 (i.toNat + 1) hl1.inv with ⟨hw2, _⟩ | ⟨l2, s2, its2, c2, hw2, hl2⟩
          · rw [hw2]; exact hl1
          · rw [hw2]; exact hl1.trans hl2
        · exact hl1
      · exact hl1

/-- Consume changes neither the invariant nor the L0 state. -/
theorem consume_inv (l : Log) (hinv : Inv l) (off : Int) (mc : Nat) :
    Inv (l.consume off mc).1 ∧ abs (l.consume off mc).1 = abs l :=
  ⟨(consume_loaded l hinv off mc).inv, (consume_loaded l hinv off mc).abs⟩

end Klev
