/-
Reader level: on a segment whose index names its records, `reader.Consume` and
`reader.Get` return what the records say.
-/
import Klev.Proofs.Inv
namespace Klev

theorem layout_pos_nonneg (v : Ver) (recs : List Msg) : ∀ pm ∈ layout v recs, 0 ≤ pm.1 := by
  intro pm h
  have := layoutFrom_ge v _ recs pm h
  have : 0 ≤ hdrSize v := by cases v <;> simp [hdrSize]
  omega

theorem ItemsFor.pos_nonneg {v : Ver} {recs : List Msg} {its : List Item} (h : ItemsFor v recs its)
    (k : Nat) (hk : k < its.length) : 0 ≤ (its[k]).pos := by
  obtain ⟨h2, _, _, hp⟩ := h.getElem k hk
  rw [hp]
  exact layout_pos_nonneg v recs _ (List.getElem_mem h2)

theorem getLast?_take_of_ne {α : Type} (l : List α) (n : Nat) (hl : l ≠ []) (hn : 1 ≤ n) :
    ∃ x, (l.take n).getLast? = some x := by
  have : l.take n ≠ [] := by
    cases l with
    | nil => exact absurd rfl hl
    | cons a as =>
      cases n with
      | zero => omega
      | succ n => simp
  exact ⟨(l.take n).getLast this, List.getLast?_eq_some_getLast this⟩

/-- The messages of a segment a cursor at `off` still has to see. -/
def segFrom (recs : List Msg) (off : Int) : List Msg := recs.filter (fun m => decide (off ≤ m.off))

/-- `reader.Consume` on a consistent segment. -/
theorem readerConsume_spec (c : RCtx) (s : Seg) (its : List Item) (off : Int) (mc : Nat)
    (hit : ItemsFor s.ver s.recs its) (hs : s.recs.Pairwise (fun a b => a.off < b.off))
    (hlow : ∀ m ∈ s.recs, 0 ≤ m.off) (hn : off ≠ offsetNewest) (hmc : 1 ≤ mc)
    (hoff : off = offsetOldest ∨ -2 < off ∨ True) :
    (segFrom s.recs (if off = offsetOldest then -2 else off) ≠ [] →
      ∃ lm, ((segFrom s.recs (if off = offsetOldest then -2 else off)).take mc).getLast? = some lm ∧
        readerConsume c s its off mc =
          .ok (lm.off + 1, (segFrom s.recs (if off = offsetOldest then -2 else off)).take mc)) ∧
    (segFrom s.recs (if off = offsetOldest then -2 else off) = [] →
      readerConsume c s its off mc =
        if c.head = true ∧ off ≤ c.nextOff then .ok (c.nextOff, [])
        else .ierr (if s.recs = [] then .empty else .afterEnd)) := by
  have hsorted := hit.sorted hs
  have hlen := hit.length
  have hoo : (if off = offsetOldest then (-2 : Int) else off) = off := by
    split
    · next h => rw [h]; rfl
    · rfl
  rw [hoo]
  unfold readerConsume ixConsume
  simp only [hn, if_false]
  rw [Index.consume_eq_spec its off hsorted]
  unfold Index.consumeSpec
  cases hh : its.head? with
  | none =>
    have hnil : its = [] := by cases its <;> simp_all
    have hrn : s.recs = [] := by
      have : s.recs.length = 0 := by rw [← hlen, hnil]; rfl
      exact List.eq_nil_of_length_eq_zero this
    simp only [hrn, segFrom, List.filter_nil, ne_eq, not_true_eq_false, false_implies, true_and,
      forall_const, if_true]
    by_cases hc : c.head = true ∧ off ≤ c.nextOff
    · simp [hc]
    · simp only [hc, if_false]
      have : ¬ ((IErr.empty = IErr.empty ∨ IErr.empty = IErr.afterEnd) ∧ c.head = true ∧ off ≤ c.nextOff) := by
        intro h; exact hc h.2
      simp [this]
  | some first =>
    cases hl : its.getLast? with
    | none => cases its <;> simp_all
    | some last =>
      simp only
      obtain ⟨h0, hf⟩ := head?_eq_getElem hh
      obtain ⟨hnl, hlast⟩ := getLast?_eq_getElem hl
      have hrne : s.recs ≠ [] := by
        intro he
        have : s.recs.length = 0 := by rw [he]; rfl
        omega
      -- the last item describes the last record
      obtain ⟨_, hl3, hlo, _⟩ := hit.getElem (its.length - 1) hnl
      -- generic conclusion once the start index `k` is known
      have key : ∀ k (hk : k < its.length),
          (∀ j (hj : j < k), (its[j]'(by omega)).off < off) → off ≤ (its[k]).off →
          segFrom s.recs off = s.recs.drop k ∧ s.recs.drop k ≠ [] ∧
          consumeFile s (its[k]).pos last.pos mc = (s.recs.drop k).take mc := by
        intro k hk hlo' hge
        refine ⟨?_, ?_, consumeFile_item hit k hk last hl mc⟩
        · unfold segFrom
          apply filter_eq_drop _ _ k (by omega)
          · intro j hj hjl
            obtain ⟨_, _, hjo, _⟩ := hit.getElem j (by omega)
            have := hlo' j hj
            simp only [decide_eq_false_iff_not]
            omega
          · intro j hjl hkj
            obtain ⟨_, hk3, hko, _⟩ := hit.getElem k hk
            simp only [decide_eq_true_eq]
            by_cases hc : j = k
            · subst hc; omega
            · have := List.pairwise_iff_getElem.mp hs k j hk3 hjl (by omega)
              omega
        · intro he
          have : (s.recs.drop k).length = 0 := by rw [he]; rfl
          simp only [List.length_drop] at this
          omega
      have finish : ∀ k (hk : k < its.length),
          (∀ j (hj : j < k), (its[j]'(by omega)).off < off) → off ≤ (its[k]).off →
          (segFrom s.recs off ≠ [] →
            ∃ lm, ((segFrom s.recs off).take mc).getLast? = some lm ∧
              (match (Except.ok ((its[k]).pos, last.pos, off) : IRes (Int × Int × Int)) with
                | .error e => (ROut.ierr e : ROut (Int × List Msg))
                | .ok (pos, maxPos, nxt) =>
                  if pos = -1 then .ok (nxt, [])
                  else match (consumeFile s pos maxPos mc).getLast? with
                    | none => .corrupt
                    | some lm => .ok (lm.off + 1, consumeFile s pos maxPos mc)) =
                .ok (lm.off + 1, (segFrom s.recs off).take mc)) ∧
          (segFrom s.recs off = [] → False) := by
        intro k hk h1 h2
        obtain ⟨hF, hne, hcf⟩ := key k hk h1 h2
        refine ⟨?_, fun he => hne (hF ▸ he)⟩
        intro _
        obtain ⟨lm, hlm⟩ := getLast?_take_of_ne (s.recs.drop k) mc hne hmc
        refine ⟨lm, by rw [hF]; exact hlm, ?_⟩
        have hp := hit.pos_nonneg k hk
        have hp1 : ¬ (its[k]).pos = -1 := by omega
        simp only [hp1, if_false, hcf, hlm, hF]
      by_cases c1 : off = offsetOldest
      · simp only [c1, if_true]
        have := finish 0 h0 (by intro j hj; omega)
          (by obtain ⟨_, h03, h0o, _⟩ := hit.getElem 0 h0
              have := hlow _ (List.getElem_mem h03)
              rw [c1, h0o]; simp [offsetOldest]; omega)
        rw [hf, c1] at this
        refine ⟨fun hne => ?_, fun he => absurd he ?_⟩
        · obtain ⟨lm, h1, h2⟩ := this.1 hne
          exact ⟨lm, h1, h2⟩
        · intro he; exact this.2 he
      · simp only [c1, hn, if_false]
        by_cases c5 : off > last.off
        · simp only [c5, if_true]
          have hFe : segFrom s.recs off = [] := by
            unfold segFrom
            rw [List.filter_eq_nil_iff]
            intro m hm
            obtain ⟨j, hj, rfl⟩ := List.getElem_of_mem hm
            simp only [decide_eq_true_eq]
            have : (s.recs[j]).off ≤ (s.recs[its.length - 1]).off := by
              by_cases hc : j = its.length - 1
              · subst hc; omega
              · have := List.pairwise_iff_getElem.mp hs j (its.length - 1) hj hl3 (by omega)
                omega
            rw [← hlast] at c5
            omega
          refine ⟨fun hne => absurd hFe hne, fun _ => ?_⟩
          simp only [hrne, if_false]
          by_cases hc : c.head = true ∧ off ≤ c.nextOff
          · simp [hc]
          · simp only [hc, if_false]
            have : ¬ ((IErr.afterEnd = IErr.empty ∨ IErr.afterEnd = IErr.afterEnd) ∧ c.head = true ∧ off ≤ c.nextOff) := by
              intro h; exact hc h.2
            simp [this]
        · simp only [c5, if_false]
          -- the lower bound exists
          cases hfd : its.find? (fun x => decide (off ≤ x.off)) with
          | none =>
            exfalso
            rw [List.find?_eq_none] at hfd
            have := hfd last (by rw [← hlast]; exact List.getElem_mem hnl)
            simp only [decide_eq_true_eq] at this
            omega
          | some it =>
            simp only
            rw [List.find?_eq_some_iff_getElem] at hfd
            obtain ⟨hpit, k, hk, hkit, hbefore⟩ := hfd
            simp only [decide_eq_true_eq] at hpit
            have := finish k hk
              (by intro j hj
                  have := hbefore j hj
                  simp only [Bool.not_eq_true', decide_eq_false_iff_not] at this
                  omega)
              (by rw [hkit]; exact hpit)
            rw [hkit] at this
            refine ⟨fun hne => ?_, fun he => absurd he ?_⟩
            · obtain ⟨lm, h1, h2⟩ := this.1 hne
              exact ⟨lm, h1, h2⟩
            · intro he; exact this.2 he

end Klev
