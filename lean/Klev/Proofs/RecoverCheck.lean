/-
"Recover keeps exactly the valid prefix; Check accepts exactly the clean segments" on the
bytes of a V2 head segment (`Klev/SegBytes.lean`).

Throughout: `ms` are encodable records, the log file is `render .v2 ms ++ junk`, and
`hno` says that what follows the valid records does not itself parse as a record
(automatic for a tail shorter than a record header, in particular for `junk = []`:
`hno_short`, `hno_nil`).

The index round trip lives in `Klev/Proofs/IdxRoundTrip.lean`.
-/
import Klev.SegBytes
import Klev.Proofs.ScanProofs
import Klev.Proofs.SegBytesProofs
import Klev.Proofs.IdxRoundTrip
namespace Klev

/-! ### (a) the file header -/

/-- A file that starts with the V2 header is a V2 log, whatever follows and whatever the
base offset of the segment. -/
theorem logVersion_render_v2 (ms : List Msg) (junk : List UInt8) (base : Int) :
    logVersion (render .v2 ms ++ junk) base = .ok .v2 := by
  have : render .v2 ms ++ junk =
      0xFF :: 0x6B :: 0x6C :: 0x65 :: 0x76 :: 0x73 :: 0x01 :: 0x00 :: (encAll .v2 ms ++ junk) := by
    simp [render, logHdr, Gen.msgV2FileHeader]
  rw [this]
  simp [logVersion, logMagic, Gen.msgMagic, v2Marker, Gen.msgV2Marker]

/-! ### the no-parse hypothesis in the two automatic cases -/

theorem hno_nil (ms : List Msg) :
    ∀ m n, dec .v2 (render .v2 ms ++ []) (render .v2 ms).length ≠ .ok m n := by
  intro m n hd
  have := (dec_eof_iff .v2 (render .v2 ms ++ []) (render .v2 ms).length).mpr (by simp)
  rw [hd] at this
  cases this

/-- A torn tail shorter than a record header never parses as a record. -/
theorem hno_short (ms : List Msg) (junk : List UInt8) (hj : junk.length < 28) :
    ∀ m n, dec .v2 (render .v2 ms ++ junk) (render .v2 ms).length ≠ .ok m n := by
  intro m n hd
  by_cases h0 : junk = []
  · subst h0
    exact hno_nil ms m n hd
  · have hpos : 0 < junk.length := List.length_pos_iff.mpr h0
    have := dec_shortHeader .v2 (render .v2 ms ++ junk) (render .v2 ms).length
      (by rw [List.length_append]; omega) (by rw [List.length_append]; omega)
    rw [hd] at this
    cases this

/-! ### the index a scan derives -/

/-- The index a scan derives from valid records followed by a non-record is the model's
`derive` of the records. -/
theorem deriveScan_prefix (p : Params) (ms : List Msg) (junk : List UInt8)
    (h : ∀ m ∈ ms, m.Encodable)
    (hno : ∀ m n, dec .v2 (render .v2 ms ++ junk) (render .v2 ms).length ≠ .ok m n) :
    deriveScan p (scan .v2 (render .v2 ms ++ junk)).recs = derive p .v2 ms := by
  obtain ⟨_, h2, _⟩ := scan_prefix_layout .v2 ms junk h hno
  rw [deriveScan, h2, derive]

theorem deriveScan_render (p : Params) (ms : List Msg) (h : ∀ m ∈ ms, m.Encodable) :
    deriveScan p (scan .v2 (render .v2 ms)).recs = deriveFrom p 0 (layout .v2 ms) := by
  obtain ⟨_, _, h3, _⟩ := scan_render .v2 ms h
  rw [deriveScan, h3]

/-! ### (b) Recover leaves precisely the valid prefix -/

theorem recover_log (p : Params) (base : Int) (ms : List Msg) (junk : List UInt8)
    (idx : Option (List UInt8)) (h : ∀ m ∈ ms, m.Encodable)
    (hno : ∀ m n, dec .v2 (render .v2 ms ++ junk) (render .v2 ms).length ≠ .ok m n) :
    ∃ f', Seg.recover p ⟨base, render .v2 ms ++ junk, idx⟩ = .ok f' ∧ f'.base = base ∧
      f'.log = render .v2 ms := by
  obtain ⟨h1, _, _, h4, h5⟩ := scan_prefix_layout .v2 ms junk h hno
  unfold Seg.recover
  simp only [logVersion_render_v2]
  refine ⟨_, rfl, rfl, ?_⟩
  simp only
  by_cases hj : junk = []
  · rw [h4.mpr hj, hj, List.append_nil]
  · obtain ⟨e, he, _⟩ := h5 hj
    rw [he]
    simp only [h1]
    rfl

/-- The index file `Recover` leaves, given the one it found and the index it derived. -/
def recoveredIdx (p : Params) (base : Int) (want : List Item) :
    Option (List UInt8) → Option (List UInt8)
  | none => none
  | some ib =>
    match parseIdx p ib base with
    | .error _ => none
    | .ok (iv, items) => if items = want then some ib else some (renderIdx p iv want)

theorem recover_eq (p : Params) (base : Int) (ms : List Msg) (junk : List UInt8)
    (idx : Option (List UInt8)) (h : ∀ m ∈ ms, m.Encodable)
    (hno : ∀ m n, dec .v2 (render .v2 ms ++ junk) (render .v2 ms).length ≠ .ok m n) :
    Seg.recover p ⟨base, render .v2 ms ++ junk, idx⟩ =
      .ok ⟨base, render .v2 ms, recoveredIdx p base (derive p .v2 ms) idx⟩ := by
  obtain ⟨f', hf, hb, hl⟩ := recover_log p base ms junk idx h hno
  have hw := deriveScan_prefix p ms junk h hno
  rw [hf]
  obtain ⟨b', l', i'⟩ := f'
  simp only at hb hl
  subst hb hl
  unfold Seg.recover at hf
  simp only [logVersion_render_v2, hw, Except.ok.injEq, SegFiles.mk.injEq, true_and] at hf
  obtain ⟨_, hi⟩ := hf
  rw [← hi]
  cases idx <;> rfl

/-! ### (e) Check succeeds iff the log parses completely and the index, if present, is the derived one -/

theorem check_iff (p : Params) (base : Int) (ms : List Msg) (junk : List UInt8)
    (idx : Option (List UInt8)) (h : ∀ m ∈ ms, m.Encodable)
    (hno : ∀ m n, dec .v2 (render .v2 ms ++ junk) (render .v2 ms).length ≠ .ok m n) :
    Seg.check p ⟨base, render .v2 ms ++ junk, idx⟩ = .ok () ↔
      junk = [] ∧ (idx = none ∨ ∃ ib iv items, idx = some ib ∧
        parseIdx p ib base = .ok (iv, items) ∧
        items = deriveScan p (scan .v2 (render .v2 ms)).recs) := by
  obtain ⟨_, _, _, h4, h5⟩ := scan_prefix_layout .v2 ms junk h hno
  unfold Seg.check
  simp only [logVersion_render_v2]
  by_cases hj : junk = []
  · subst hj
    rw [List.append_nil] at h4 ⊢
    rw [h4.mpr rfl]
    simp only [true_and]
    cases idx with
    | none => simp
    | some ib =>
      simp only [Option.some.injEq, reduceCtorEq, false_or]
      cases hp : parseIdx p ib base with
      | error e =>
        simp only [reduceCtorEq, false_iff]
        rintro ⟨ib', iv', items', hib, hp', _⟩
        cases hib
        rw [hp] at hp'
        cases hp'
      | ok r =>
        obtain ⟨iv, items⟩ := r
        simp only
        by_cases heq : items = deriveScan p (scan .v2 (render .v2 ms)).recs
        · rw [if_pos heq]
          simp only [true_iff]
          exact ⟨ib, iv, items, rfl, hp, heq⟩
        · rw [if_neg heq]
          simp only [reduceCtorEq, false_iff]
          rintro ⟨ib', iv', items', hib, hp', rfl⟩
          cases hib
          rw [hp] at hp'
          injection hp' with hp'
          injection hp' with _ hp'
          exact heq hp'
  · obtain ⟨e, he, _⟩ := h5 hj
    rw [he]
    simp [hj]

/-- `check_iff` for a file with nothing behind the records. -/
theorem check_clean_iff (p : Params) (base : Int) (ms : List Msg) (idx : Option (List UInt8))
    (h : ∀ m ∈ ms, m.Encodable) :
    Seg.check p ⟨base, render .v2 ms, idx⟩ = .ok () ↔
      (idx = none ∨ ∃ ib iv items, idx = some ib ∧ parseIdx p ib base = .ok (iv, items) ∧
        items = derive p .v2 ms) := by
  have := check_iff p base ms [] idx h (hno_nil ms)
  rw [List.append_nil, deriveScan_render p ms h] at this
  rw [this]
  simp [derive]

/-! ### the derived index is in range and has nothing to mask -/

theorem newItem_mask (p : Params) (m : Msg) (pos ts : Int) :
    (newItem p m pos ts).mask p = newItem p m pos ts := by
  obtain ⟨t, k⟩ := p
  cases t <;> cases k <;> rfl

theorem deriveFrom_mask (p : Params) (l : List (Int × Msg)) :
    ∀ ts, (deriveFrom p ts l).map (Item.mask p) = deriveFrom p ts l := by
  induction l with
  | nil => intro ts; rfl
  | cons pm l ih =>
    intro ts
    obtain ⟨pos, m⟩ := pm
    simp only [deriveFrom, List.map_cons, newItem_mask, ih]

theorem deriveFrom_inRange (p : Params) (l : List (Int × Msg))
    (hl : ∀ pm ∈ l, 0 ≤ pm.1 ∧ pm.1 < (two63 : Int) ∧ pm.2.Encodable) :
    ∀ ts, -(two63 : Int) ≤ ts → ts < (two63 : Int) → ∀ it ∈ deriveFrom p ts l, it.InRange p := by
  induction l with
  | nil => intro ts _ _ it hit; simp [deriveFrom] at hit
  | cons pm l ih =>
    intro ts hts1 hts2 it hit
    obtain ⟨pos, m⟩ := pm
    obtain ⟨hp1, hp2, ho1, ho2, ht1, ht2, _⟩ := hl (pos, m) (by simp)
    simp only at hp1 hp2 ho1 ho2 ht1 ht2
    have hts' : -(two63 : Int) ≤ (newItem p m pos ts).ts ∧ (newItem p m pos ts).ts < (two63 : Int) := by
      simp only [newItem]
      split
      · omega
      · unfold two63; omega
    simp only [deriveFrom, List.mem_cons] at hit
    rcases hit with rfl | hit
    · refine ⟨ho1, ho2, ?_, hp2, fun _ => hts'⟩
      show -(two63 : Int) ≤ pos
      unfold two63; omega
    · exact ih (fun pm hpm => hl pm (by simp [hpm])) _ hts'.1 hts'.2 it hit

theorem deriveFrom_head (p : Params) (ts : Int) (l : List (Int × Msg)) :
    ∀ it ∈ (deriveFrom p ts l).head?, ∃ pm ∈ l.head?, it.off = pm.2.off := by
  cases l with
  | nil => intro it hit; simp [deriveFrom] at hit
  | cons pm l =>
    intro it hit
    obtain ⟨pos, m⟩ := pm
    simp only [deriveFrom, List.head?_cons, Option.mem_def, Option.some.injEq] at hit
    subst hit
    exact ⟨(pos, m), by simp, rfl⟩



theorem posFrom_bound (v : Ver) (ms : List Msg) :
    ∀ p0, ∀ pm ∈ posFrom v p0 ms, pm.1 < p0 + (encAll v ms).length ∧ pm.2 ∈ ms := by
  induction ms with
  | nil => intro p0 pm hpm; simp [posFrom] at hpm
  | cons m ms ih =>
    intro p0 pm hpm
    simp only [posFrom, List.mem_cons] at hpm
    have hge := enc_length_ge v m
    rw [encAll_cons, List.length_append]
    rcases hpm with rfl | hpm
    · exact ⟨by simp only; omega, by simp⟩
    · obtain ⟨h1, h2⟩ := ih _ pm hpm
      exact ⟨by omega, by simp [h2]⟩

theorem layout_bound (v : Ver) (ms : List Msg) (h : ∀ m ∈ ms, m.Encodable)
    (hsize : (render v ms).length < two63) :
    ∀ pm ∈ layout v ms, 0 ≤ pm.1 ∧ pm.1 < (two63 : Int) ∧ pm.2.Encodable := by
  intro pm hpm
  have hl : layout v ms = (posFrom v (initialPos v) ms).map (fun pm => ((pm.1 : Int), pm.2)) := by
    rw [posFrom_layoutFrom, initialPos_hdrSize, layout]
  rw [hl, List.mem_map] at hpm
  obtain ⟨qm, hq, rfl⟩ := hpm
  obtain ⟨h1, h2⟩ := posFrom_bound v ms _ qm hq
  rw [render_length] at hsize
  exact ⟨by simp only; omega, by simp only; omega, h _ h2⟩

theorem derive_inRange (p : Params) (v : Ver) (ms : List Msg) (h : ∀ m ∈ ms, m.Encodable)
    (hsize : (render v ms).length < two63) : ∀ it ∈ derive p v ms, it.InRange p :=
  deriveFrom_inRange p _ (layout_bound v ms h hsize) 0 (by unfold two63; omega)
    (by unfold two63; omega)

theorem derive_head (p : Params) (v : Ver) (ms : List Msg) :
    ∀ it ∈ (derive p v ms).head?, ∃ m ∈ ms.head?, it.off = m.off := by
  intro it hit
  obtain ⟨pm, hpm, ho⟩ := deriveFrom_head p 0 (layout v ms) it hit
  cases ms with
  | nil => simp [layout, layoutFrom] at hpm
  | cons m ms =>
    simp only [layout, layoutFrom, List.head?_cons, Option.mem_def, Option.some.injEq] at hpm
    subst hpm
    exact ⟨m, by simp, ho⟩

theorem derive_mask (p : Params) (v : Ver) (ms : List Msg) :
    (derive p v ms).map (Item.mask p) = derive p v ms := deriveFrom_mask p _ 0

/-- The derived index of a V2 log survives a round trip through an index file of either
version (for a V1 index file: when the first record's offset is the segment's base ≥ 0). -/
theorem parseIdx_renderIdx_derive (p : Params) (iv : Ver) (ms : List Msg) (base : Int)
    (h : ∀ m ∈ ms, m.Encodable) (hsize : (render .v2 ms).length < two63)
    (hv1 : iv = .v1 → 0 ≤ base ∧ ∀ m ∈ ms.head?, m.off = base) :
    parseIdx p (renderIdx p iv (derive p .v2 ms)) base = .ok (iv, derive p .v2 ms) := by
  have := parseIdx_renderIdx p iv (derive p .v2 ms) base (derive_inRange p .v2 ms h hsize)
    (by
      intro hiv it hit
      obtain ⟨hb, hf⟩ := hv1 hiv
      obtain ⟨m, hm, ho⟩ := derive_head p .v2 ms it hit
      exact ⟨by rw [ho]; exact hf m hm, hb⟩)
  rw [this, derive_mask]

/-! ### (d) after Recover, Check succeeds -/

theorem check_after_recover (p : Params) (base : Int) (ms : List Msg) (junk : List UInt8)
    (idx : Option (List UInt8)) (h : ∀ m ∈ ms, m.Encodable)
    (hno : ∀ m n, dec .v2 (render .v2 ms ++ junk) (render .v2 ms).length ≠ .ok m n)
    (hsize : (render .v2 ms).length < two63)
    (hbase : 0 ≤ base) (hfirst : ∀ m ∈ ms.head?, m.off = base) :
    ∀ f', Seg.recover p ⟨base, render .v2 ms ++ junk, idx⟩ = .ok f' → Seg.check p f' = .ok () := by
  intro f' hf
  rw [recover_eq p base ms junk idx h hno] at hf
  injection hf with hf
  subst hf
  rw [check_clean_iff p base ms _ h]
  cases idx with
  | none => exact .inl rfl
  | some ib =>
    simp only [recoveredIdx]
    cases hp : parseIdx p ib base with
    | error e => exact .inl rfl
    | ok r =>
      obtain ⟨iv, items⟩ := r
      simp only
      by_cases heq : items = derive p .v2 ms
      · rw [if_pos heq]
        exact .inr ⟨ib, iv, items, rfl, hp, heq⟩
      · rw [if_neg heq]
        exact .inr ⟨_, iv, _, rfl,
          parseIdx_renderIdx_derive p iv ms base h hsize (fun _ => ⟨hbase, hfirst⟩), rfl⟩

/-! ### (f) cleanly written segments pass Check, and keep passing when appended to -/

/-- Check accepts every cleanly written V2 segment without an index file … -/
theorem check_clean_noidx (p : Params) (base : Int) (ms : List Msg) (h : ∀ m ∈ ms, m.Encodable) :
    Seg.check p ⟨base, render .v2 ms, none⟩ = .ok () :=
  (check_clean_iff p base ms none h).mpr (.inl rfl)

/-- … and with the index file, of either version, that holds the derived items. -/
theorem check_clean (p : Params) (base : Int) (ms : List Msg) (iv : Ver)
    (h : ∀ m ∈ ms, m.Encodable) (hsize : (render .v2 ms).length < two63)
    (hv1 : iv = .v1 → 0 ≤ base ∧ ∀ m ∈ ms.head?, m.off = base) :
    Seg.check p ⟨base, render .v2 ms,
      some (renderIdx p iv (deriveScan p (scan .v2 (render .v2 ms)).recs))⟩ = .ok () := by
  rw [deriveScan_render p ms h, ← derive]
  exact (check_clean_iff p base ms _ h).mpr
    (.inr ⟨_, iv, _, rfl, parseIdx_renderIdx_derive p iv ms base h hsize hv1, rfl⟩)

/-! ### appending records and their items -/

theorem encAll_append (v : Ver) (a b : List Msg) : encAll v (a ++ b) = encAll v a ++ encAll v b := by
  simp [encAll]

theorem render_append (v : Ver) (a b : List Msg) : render v (a ++ b) = render v a ++ encAll v b := by
  simp [render, encAll_append]

theorem renderIdx_append (p : Params) (iv : Ver) (a b : List Item) :
    renderIdx p iv (a ++ b) = renderIdx p iv a ++ b.flatMap (encItem p) := by
  simp [renderIdx]

/-- `indexTime` after a run of records (what a writer continues from). -/
def tsAfter (p : Params) : Int → List (Int × Msg) → Int
  | ts, [] => ts
  | ts, (pos, m) :: rest => tsAfter p (newItem p m pos ts).ts rest

theorem deriveFrom_append' (p : Params) : ∀ (a b : List (Int × Msg)) (ts : Int),
    deriveFrom p ts (a ++ b) = deriveFrom p ts a ++ deriveFrom p (tsAfter p ts a) b := by
  intro a
  induction a with
  | nil => intro b ts; rfl
  | cons pm a ih =>
    intro b ts
    obtain ⟨pos, m⟩ := pm
    simp only [List.cons_append, deriveFrom, tsAfter, ih]

theorem layoutFrom_append' (v : Ver) : ∀ (a b : List Msg) (q : Int),
    layoutFrom v q (a ++ b) = layoutFrom v q a ++ layoutFrom v (sizeFrom v q a) b := by
  intro a
  induction a with
  | nil => intro b q; rfl
  | cons m a ih =>
    intro b q
    simp only [List.cons_append, layoutFrom, sizeFrom, ih]

/-- The items of a longer log are the items of the shorter one followed by the items of the
appended records, derived from where the file and `indexTime` stood. -/
theorem derive_append (p : Params) (v : Ver) (a b : List Msg) :
    derive p v (a ++ b) = derive p v a ++
      deriveFrom p (tsAfter p 0 (layout v a)) (layoutFrom v (logSize v a) b) := by
  simp only [derive, layout, logSize, layoutFrom_append', deriveFrom_append']

theorem sizeFrom_encAll (v : Ver) (ms : List Msg) : ∀ q : Nat,
    sizeFrom v (q : Int) ms = ((q + (encAll v ms).length : Nat) : Int) := by
  induction ms with
  | nil => intro q; simp [sizeFrom, encAll]
  | cons m ms ih =>
    intro q
    have := enc_length v m
    rw [sizeFrom, ← this, ← Int.natCast_add, ih, encAll_cons, List.length_append]
    congr 1
    omega

/-- The model's `logSize` is the length of the rendered file. -/
theorem render_length_logSize (v : Ver) (ms : List Msg) :
    ((render v ms).length : Int) = logSize v ms := by
  rw [logSize, ← initialPos_hdrSize, sizeFrom_encAll, render_length]

/-- (f) If Check passes on a cleanly written segment with its derived index, it still does
after more encoded records are appended and the index is the derived one of the longer log.
(The premise is not needed: see `check_clean`.) -/
theorem check_stable_append (p : Params) (base : Int) (ms ms2 : List Msg) (iv : Ver)
    (h1 : ∀ m ∈ ms, m.Encodable) (h2 : ∀ m ∈ ms2, m.Encodable)
    (hsize : (render .v2 (ms ++ ms2)).length < two63)
    (hv1 : iv = .v1 → 0 ≤ base ∧ ∀ m ∈ (ms ++ ms2).head?, m.off = base)
    (_hc : Seg.check p ⟨base, render .v2 ms,
      some (renderIdx p iv (deriveScan p (scan .v2 (render .v2 ms)).recs))⟩ = .ok ()) :
    Seg.check p ⟨base, render .v2 (ms ++ ms2),
      some (renderIdx p iv (deriveScan p (scan .v2 (render .v2 (ms ++ ms2))).recs))⟩ = .ok () :=
  check_clean p base (ms ++ ms2) iv
    (fun m hm => by
      rcases List.mem_append.mp hm with hm | hm
      · exact h1 m hm
      · exact h2 m hm)
    hsize hv1

/-- The same on the bytes: the log file grows by the encoded records, the index file by the
encoded items of those records. -/
theorem check_stable_append_bytes (p : Params) (base : Int) (ms ms2 : List Msg) (iv : Ver)
    (h1 : ∀ m ∈ ms, m.Encodable) (h2 : ∀ m ∈ ms2, m.Encodable)
    (hsize : (render .v2 (ms ++ ms2)).length < two63)
    (hv1 : iv = .v1 → 0 ≤ base ∧ ∀ m ∈ (ms ++ ms2).head?, m.off = base) :
    Seg.check p ⟨base, render .v2 ms ++ encAll .v2 ms2,
      some (renderIdx p iv (derive p .v2 ms) ++
        (deriveFrom p (tsAfter p 0 (layout .v2 ms))
          (layoutFrom .v2 ((render .v2 ms).length : Int) ms2)).flatMap (encItem p))⟩ = .ok () := by
  have hall : ∀ m ∈ ms ++ ms2, m.Encodable := fun m hm => by
    rcases List.mem_append.mp hm with hm | hm
    · exact h1 m hm
    · exact h2 m hm
  have := check_clean p base (ms ++ ms2) iv hall hsize hv1
  rwa [deriveScan_render p _ hall, ← derive, derive_append, renderIdx_append, render_append,
    ← render_length_logSize] at this

end Klev

#print axioms Klev.logVersion_render_v2
#print axioms Klev.hno_short
#print axioms Klev.deriveScan_prefix
#print axioms Klev.deriveScan_render
#print axioms Klev.recover_log
#print axioms Klev.recover_eq
#print axioms Klev.check_iff
#print axioms Klev.check_clean_iff
#print axioms Klev.parseIdx_renderIdx
#print axioms Klev.parseIdx_renderIdx_derive
#print axioms Klev.check_after_recover
#print axioms Klev.check_clean_noidx
#print axioms Klev.check_clean
#print axioms Klev.derive_append
#print axioms Klev.render_length_logSize
#print axioms Klev.check_stable_append
#print axioms Klev.check_stable_append_bytes
