/-
The record scan (`Klev/Scan.lean`) over a rendered file: records are laid out back to
back, the scan of a clean file returns exactly the records at exactly the model's
positions, and whatever follows the valid records that does not itself parse as a record
is reported as corruption at exactly the end of the valid prefix.
-/
import Klev.Scan
import Klev.Proofs.Codec
namespace Klev

/-! ### one step of the loop -/

theorem scanFrom_ok {v : Ver} {b : List UInt8} {pos next : Nat} {m : Msg}
    (h : dec v b pos = .ok m next) (fuel : Nat) (acc : List (Nat × Msg)) :
    scanFrom v b (fuel + 1) pos acc = scanFrom v b fuel next ((pos, m) :: acc) := by
  rw [scanFrom, h]

theorem scanFrom_eof {v : Ver} {b : List UInt8} {pos : Nat}
    (h : dec v b pos = .eof) (fuel : Nat) (acc : List (Nat × Msg)) :
    scanFrom v b (fuel + 1) pos acc = ⟨acc.reverse, pos, .clean⟩ := by
  rw [scanFrom, h]

theorem scanFrom_bad {v : Ver} {b : List UInt8} {pos : Nat} {e : DecErr}
    (h : dec v b pos = .bad e) (fuel : Nat) (acc : List (Nat × Msg)) :
    scanFrom v b (fuel + 1) pos acc = ⟨acc.reverse, pos, .corrupt e⟩ := by
  rw [scanFrom, h]

/-! ### the end of the file -/

theorem slice_length (b : List UInt8) (pos n : Nat) :
    (slice b pos n).length = min n (b.length - pos) := by
  simp [slice]

/-- The reader reports the end of the file exactly when nothing is left. -/
theorem dec_eof_iff (v : Ver) (b : List UInt8) (pos : Nat) :
    dec v b pos = .eof ↔ b.length ≤ pos := by
  have hl := slice_length b pos 28
  constructor
  · intro h
    apply Classical.byContradiction
    intro hn
    have h0 : (slice b pos 28).length ≠ 0 := by omega
    cases v
    · simp only [dec, decV1] at h
      rw [if_neg h0] at h
      repeat' split at h
      all_goals simp at h
    · simp only [dec, decV2] at h
      rw [if_neg h0] at h
      repeat' split at h
      all_goals simp at h
  · intro h
    have h0 : (slice b pos 28).length = 0 := by omega
    cases v
    · simp only [dec, decV1]; rw [if_pos h0]
    · simp only [dec, decV2]; rw [if_pos h0]

/-! ### records back to back -/

/-- Byte positions of back-to-back records starting at `p`. -/
def posFrom (v : Ver) : Nat → List Msg → List (Nat × Msg)
  | _, [] => []
  | p, m :: ms => (p, m) :: posFrom v (p + (enc v m).length) ms

theorem posFrom_snd (v : Ver) (p : Nat) (ms : List Msg) : (posFrom v p ms).map (·.2) = ms := by
  induction ms generalizing p with
  | nil => rfl
  | cons m ms ih => simp [posFrom, ih]

/-- The byte positions are the model's `layoutFrom` positions (`Size(m)` per record). -/
theorem posFrom_layoutFrom (v : Ver) (p : Nat) (ms : List Msg) :
    (posFrom v p ms).map (fun pm => ((pm.1 : Int), pm.2)) = layoutFrom v (p : Int) ms := by
  induction ms generalizing p with
  | nil => rfl
  | cons m ms ih =>
    simp only [posFrom, layoutFrom, List.map_cons, ih, ← enc_length]
    simp

theorem encAll_cons (v : Ver) (m : Msg) (ms : List Msg) :
    encAll v (m :: ms) = enc v m ++ encAll v ms := by
  simp [encAll]

/-- Every record is at least 28 bytes, so there are no more records than bytes: the
fuel `b.length + 1` of `scan` never runs out. -/
theorem encAll_length_ge (v : Ver) (ms : List Msg) : 28 * ms.length ≤ (encAll v ms).length := by
  induction ms with
  | nil => simp [encAll]
  | cons m ms ih =>
    have := enc_length_ge v m
    rw [encAll_cons, List.length_append, List.length_cons]
    omega

/-- The loop walks over a block of valid records, whatever is before and after it. -/
theorem scanFrom_encAll (v : Ver) (ms : List Msg) (h : ∀ m ∈ ms, m.Encodable) :
    ∀ (pre post : List UInt8) (fuel : Nat) (acc : List (Nat × Msg)), ms.length ≤ fuel →
      scanFrom v (pre ++ encAll v ms ++ post) fuel pre.length acc =
        scanFrom v (pre ++ encAll v ms ++ post) (fuel - ms.length)
          (pre.length + (encAll v ms).length) ((posFrom v pre.length ms).reverse ++ acc) := by
  induction ms with
  | nil => intro pre post fuel acc _; simp [encAll, posFrom]
  | cons m ms ih =>
    intro pre post fuel acc hf
    have hm : m.Encodable := h m (by simp)
    have hms : ∀ x ∈ ms, x.Encodable := fun x hx => h x (by simp [hx])
    obtain ⟨fuel, rfl⟩ : ∃ f, fuel = f + 1 := ⟨fuel - 1, by simp at hf; omega⟩
    have hb : pre ++ encAll v (m :: ms) ++ post = pre ++ enc v m ++ (encAll v ms ++ post) := by
      simp [encAll_cons]
    have hb' : pre ++ enc v m ++ (encAll v ms ++ post) = (pre ++ enc v m) ++ encAll v ms ++ post := by
      simp
    have hd := dec_enc v pre (encAll v ms ++ post) m hm
    rw [hb, scanFrom_ok hd, hb']
    have := ih hms (pre ++ enc v m) post fuel ((pre.length, m) :: acc) (by simp at hf; omega)
    rw [List.length_append] at this
    rw [this]
    simp only [encAll_cons, posFrom, List.length_append, List.length_cons, List.reverse_cons,
      List.append_assoc, List.singleton_append]
    congr 1 <;> omega

/-! ### whole files -/

theorem logHdr_length (v : Ver) : (logHdr v).length = initialPos v := by cases v <;> rfl

theorem initialPos_hdrSize (v : Ver) : ((initialPos v : Nat) : Int) = hdrSize v := by
  cases v <;> rfl

theorem render_length (v : Ver) (ms : List Msg) :
    (render v ms).length = initialPos v + (encAll v ms).length := by
  rw [render, List.length_append, logHdr_length]

/-- The scan of valid records followed by anything gets to the end of the valid records
with fuel to spare, having collected exactly those records at their positions. -/
theorem scan_split (v : Ver) (ms : List Msg) (junk : List UInt8) (h : ∀ m ∈ ms, m.Encodable) :
    ∃ fuel, scan v (render v ms ++ junk) =
      scanFrom v (render v ms ++ junk) (fuel + 1) (render v ms).length
        (posFrom v (initialPos v) ms).reverse := by
  have hge := encAll_length_ge v ms
  have hlen : (render v ms ++ junk).length = initialPos v + (encAll v ms).length + junk.length := by
    rw [List.length_append, render_length]
  refine ⟨(render v ms ++ junk).length - ms.length, ?_⟩
  have := scanFrom_encAll v ms h (logHdr v) junk ((render v ms ++ junk).length + 1) []
    (by omega)
  rw [logHdr_length, List.append_nil] at this
  rw [scan, render_length]
  rw [show (render v ms ++ junk).length - ms.length + 1
    = (render v ms ++ junk).length + 1 - ms.length by omega]
  exact this

/-- The result of a scan over valid records followed by anything, by what the reader
says at the end of the valid records. -/
theorem scan_cases (v : Ver) (ms : List Msg) (junk : List UInt8) (h : ∀ m ∈ ms, m.Encodable) :
    (∃ m n, dec v (render v ms ++ junk) (render v ms).length = .ok m n) ∨
    (junk = [] ∧ scan v (render v ms ++ junk) =
      ⟨posFrom v (initialPos v) ms, (render v ms).length, .clean⟩) ∨
    (junk ≠ [] ∧ ∃ e, dec v (render v ms ++ junk) (render v ms).length = .bad e ∧
      scan v (render v ms ++ junk) =
        ⟨posFrom v (initialPos v) ms, (render v ms).length, .corrupt e⟩) := by
  obtain ⟨fuel, hs⟩ := scan_split v ms junk h
  have heof := dec_eof_iff v (render v ms ++ junk) (render v ms).length
  cases hd : dec v (render v ms ++ junk) (render v ms).length with
  | ok m n => exact .inl ⟨m, n, rfl⟩
  | eof =>
    refine .inr (.inl ⟨?_, ?_⟩)
    · have := heof.mp hd
      rw [List.length_append] at this
      exact List.eq_nil_of_length_eq_zero (by omega)
    · rw [hs, scanFrom_eof hd, List.reverse_reverse]
  | bad e =>
    refine .inr (.inr ⟨?_, e, rfl, ?_⟩)
    · intro hj
      have : dec v (render v ms ++ junk) (render v ms).length = .eof :=
        heof.mpr (by rw [hj]; simp)
      rw [hd] at this
      cases this
    · rw [hs, scanFrom_bad hd, List.reverse_reverse]

/-- Records are laid out back to back; the scan of a clean file returns exactly the
records at exactly the model's positions. -/
theorem scan_render (v : Ver) (ms : List Msg) (h : ∀ m ∈ ms, m.Encodable) :
    (scan v (render v ms)).fin = .clean ∧ (scan v (render v ms)).recs.map (·.2) = ms ∧
    (scan v (render v ms)).recs.map (fun pm => ((pm.1 : Int), pm.2)) = layout v ms ∧
    (scan v (render v ms)).stop = (render v ms).length := by
  have hc := scan_cases v ms [] h
  rw [List.append_nil] at hc
  rcases hc with ⟨m, n, hd⟩ | ⟨_, hs⟩ | ⟨hj, _⟩
  · have := (dec_eof_iff v (render v ms) (render v ms).length).mpr (Nat.le_refl _)
    rw [hd] at this
    cases this
  · rw [hs]
    refine ⟨rfl, posFrom_snd _ _ _, ?_, rfl⟩
    show (posFrom v (initialPos v) ms).map _ = _
    rw [posFrom_layoutFrom, initialPos_hdrSize, layout]
  · exact absurd rfl hj

/-- Whenever what follows the valid records does not itself parse as a record at that
position, the scan returns exactly the valid records at the model's positions, stops at
the end of them, and reports corruption iff there is something behind them. -/
theorem scan_prefix_layout (v : Ver) (ms : List Msg) (junk : List UInt8)
    (h : ∀ m ∈ ms, m.Encodable)
    (hno : ∀ m n, dec v (render v ms ++ junk) (render v ms).length ≠ .ok m n) :
    (scan v (render v ms ++ junk)).recs.map (·.2) = ms ∧
    (scan v (render v ms ++ junk)).recs.map (fun pm => ((pm.1 : Int), pm.2)) = layout v ms ∧
    (scan v (render v ms ++ junk)).stop = (render v ms).length ∧
    ((scan v (render v ms ++ junk)).fin = .clean ↔ junk = []) ∧
    (junk ≠ [] → ∃ e, (scan v (render v ms ++ junk)).fin = .corrupt e ∧
      dec v (render v ms ++ junk) (render v ms).length = .bad e) := by
  have hlay : (posFrom v (initialPos v) ms).map (fun pm => ((pm.1 : Int), pm.2)) = layout v ms := by
    rw [posFrom_layoutFrom, initialPos_hdrSize, layout]
  rcases scan_cases v ms junk h with ⟨m, n, hd⟩ | ⟨hj, hs⟩ | ⟨hj, e, hde, hs⟩
  · exact absurd hd (hno m n)
  · rw [hs]
    exact ⟨posFrom_snd _ _ _, hlay, rfl, ⟨fun _ => hj, fun _ => rfl⟩, fun hn => absurd hj hn⟩
  · rw [hs]
    refine ⟨posFrom_snd _ _ _, hlay, rfl, ⟨fun hc => ?_, fun hn => absurd hn hj⟩, fun _ => ⟨e, rfl, hde⟩⟩
    cases hc

theorem scan_prefix (v : Ver) (ms : List Msg) (junk : List UInt8) (h : ∀ m ∈ ms, m.Encodable) :
    let s := scan v (render v ms ++ junk)
    (∀ m n, dec v (render v ms ++ junk) (render v ms).length ≠ .ok m n) →
    s.recs.map (·.2) = ms ∧ s.stop = (render v ms).length ∧
    (s.fin = .clean ↔ junk = []) := by
  intro s hno
  obtain ⟨h1, _, h3, h4, _⟩ := scan_prefix_layout v ms junk h hno
  exact ⟨h1, h3, h4⟩

/-- A tail shorter than a record header is `shortHeader` corruption. -/
theorem dec_shortHeader (v : Ver) (b : List UInt8) (pos : Nat) (h1 : pos < b.length)
    (h2 : b.length < pos + 28) : dec v b pos = .bad .shortHeader := by
  have hl := slice_length b pos 28
  have h0 : (slice b pos 28).length ≠ 0 := by omega
  have h28 : (slice b pos 28).length < 28 := by omega
  cases v
  · simp only [dec, decV1]; rw [if_neg h0, if_pos h28]
  · simp only [dec, decV2]; rw [if_neg h0, if_pos h28]

/-- A torn tail shorter than a header needs no hypothesis: the scan returns the valid
records and reports `shortHeader` at the end of them. -/
theorem scan_prefix_short (v : Ver) (ms : List Msg) (junk : List UInt8)
    (h : ∀ m ∈ ms, m.Encodable) (hj0 : junk ≠ []) (hj : junk.length < 28) :
    (scan v (render v ms ++ junk)).recs.map (·.2) = ms ∧
    (scan v (render v ms ++ junk)).stop = (render v ms).length ∧
    (scan v (render v ms ++ junk)).fin = .corrupt .shortHeader := by
  have hpos : 0 < junk.length := List.length_pos_iff.mpr hj0
  have hd := dec_shortHeader v (render v ms ++ junk) (render v ms).length
    (by rw [List.length_append]; omega) (by rw [List.length_append]; omega)
  obtain ⟨h1, _, h3, _, h5⟩ := scan_prefix_layout v ms junk h (by intro m n hc; rw [hd] at hc; cases hc)
  obtain ⟨e, he, hde⟩ := h5 hj0
  rw [hd] at hde
  cases hde
  exact ⟨h1, h3, he⟩

end Klev

#print axioms Klev.encAll_length_ge
#print axioms Klev.scan_render
#print axioms Klev.scan_prefix_layout
#print axioms Klev.scan_prefix
#print axioms Klev.scan_prefix_short
