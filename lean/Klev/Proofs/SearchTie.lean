/-
The functions of `Klev/Gen/Search.lean` — generated statement by statement from
`pkg/index/offset.go`, `pkg/index/times.go` and `pkg/segment/index.go` — are *equal*, on
every input, to the hand-written models of `Klev/Index.lean` about which the theorems of
`Klev.Proofs.IndexSearch`, `Klev.Proofs.SegSearch` (and everything downstream) are proved.
So those theorems are theorems about the translated Go code.
-/
import Klev.Gen.Search
import Klev.Proofs.IndexSearch
namespace Klev
namespace SearchTie

/-! ### `getI` at the two ends of a slice -/

theorem getI_nil {α : Type} (i : Int) : getI ([] : List α) i = .error .panic := by
  unfold getI
  split <;> simp

theorem getI_zero {α : Type} {l : List α} {a : α} (h : l.head? = some a) :
    getI l 0 = .ok a := by
  obtain ⟨h0, ha⟩ := head?_eq_getElem h
  rw [getI_eq l 0 (by omega) (by simpa using h0)]
  simpa using ha

theorem getI_last {α : Type} {l : List α} {z : α} (h : l.getLast? = some z) :
    getI l ((l.length : Int) - 1) = .ok z := by
  obtain ⟨h0, hz⟩ := getLast?_eq_getElem h
  have ht : ((l.length : Int) - 1).toNat = l.length - 1 := by omega
  rw [getI_eq l _ (by omega) (by omega)]
  simp only [ht]
  rw [hz]

theorem getLast?_cons_some {α : Type} (a : α) (rest : List α) :
    ∃ z, (a :: rest).getLast? = some z := by
  cases h : (a :: rest).getLast? with
  | some z => exact ⟨z, rfl⟩
  | none => simp at h

theorem length_cons_ne_zero {α : Type} (a : α) (rest : List α) :
    ¬ (((a :: rest).length : Int) = 0) := by
  simp only [List.length_cons]; omega

/-! ### the loops -/

theorem indexConsume_loop_tie (items : List Item) (off : Int) (first last : Item) :
    ∀ (fuel : Nat) (b e : Int),
      Gen.Search.indexConsume_loop1 items off first last fuel b e
        = Index.consumeLoop items off last.pos fuel b e := by
  intro fuel
  induction fuel with
  | zero => intro b e; rfl
  | succ n ih =>
    intro b e
    simp only [Gen.Search.indexConsume_loop1, Index.consumeLoop, ih]
    rfl

theorem indexGet_loop_tie (items : List Item) (off : Int) (first last : Item) :
    ∀ (fuel : Nat) (b e : Int),
      Gen.Search.indexGet_loop1 items off first last fuel b e
        = Index.getLoop items off fuel b e := by
  intro fuel
  induction fuel with
  | zero => intro b e; rfl
  | succ n ih =>
    intro b e
    simp only [Gen.Search.indexGet_loop1, Index.getLoop, ih]
    rfl

theorem segConsume_loop_tie (bases : List Int) (off first last : Int) :
    ∀ (fuel : Nat) (b e : Int),
      Gen.Search.segConsume_loop1 bases off first last fuel b e
        = SegSearch.loop bases off fuel b e := by
  intro fuel
  induction fuel with
  | zero => intro b e; rfl
  | succ n ih =>
    intro b e
    simp only [Gen.Search.segConsume_loop1, SegSearch.loop, ih]
    split
    · rfl
    · cases h : getI bases b with
      | error x => rfl
      | ok v => simp only []; split <;> rfl

/-- what `SegSearch.get` does with the result of the shared loop -/
def liftGet (r : IRes Int) : IRes (Except SegSearch.GetErr Int) :=
  match r with
  | .ok i => .ok (.ok i)
  | .error x => .error x

theorem segGet_loop_tie (bases : List Int) (off first last : Int) :
    ∀ (fuel : Nat) (b e : Int),
      Gen.Search.segGet_loop1 bases off first last fuel b e
        = liftGet (SegSearch.loop bases off fuel b e) := by
  intro fuel
  induction fuel with
  | zero => intro b e; rfl
  | succ n ih =>
    intro b e
    simp only [Gen.Search.segGet_loop1, SegSearch.loop, ih]
    split
    · cases h : getI bases ((b + e) / 2) with
      | error x => rfl
      | ok v =>
        simp only []
        split
        · rfl
        · split <;> rfl
    · cases h : getI bases b with
      | error x => rfl
      | ok v =>
        simp only []
        split
        · cases h1 : getI bases (b - 1) with
          | error x => rfl
          | ok w => rfl
        · rfl

/-! ### `sort.Search` over `int` with the closure of `index.Time` is the `Nat` loop -/

theorem sortSearchP_eq (items : List Item) (ts : Int) (f : Int → Bool)
    (hf : ∀ (h : Nat) (hh : h < items.length), f (h : Int) = decide (items[h].ts ≥ ts)) :
    ∀ (fuel i j : Nat), j ≤ items.length →
      Index.sortSearchP f fuel (i : Int) (j : Int)
        = ((Index.sortSearch items ts fuel i j : Nat) : Int) := by
  intro fuel
  induction fuel with
  | zero => intro i j _; rfl
  | succ n ih =>
    intro i j hj
    simp only [Index.sortSearchP, Index.sortSearch]
    by_cases hij : i < j
    · have hij' : (i : Int) < (j : Int) := by omega
      have hmid : ((i : Int) + (j : Int)) / 2 = (((i + j) / 2 : Nat) : Int) := by omega
      have hlt : (i + j) / 2 < items.length := by omega
      rw [if_pos hij', if_pos hij, hmid, hf _ hlt, List.getElem?_eq_getElem hlt]
      simp only []
      by_cases hts : items[(i + j) / 2].ts ≥ ts
      · have hle : (i + j) / 2 ≤ items.length := by omega
        simp only [hts, decide_true, Bool.not_true, Bool.false_eq_true, if_false,
          not_true_eq_false]
        exact ih i ((i + j) / 2) hle
      · simp only [hts, decide_false, Bool.not_false, if_true, not_false_eq_true]
        have hc : (((i + j) / 2 : Nat) : Int) + 1 = (((i + j) / 2 + 1 : Nat) : Int) := by omega
        rw [hc]
        exact ih ((i + j) / 2 + 1) j hj
    · have hij' : ¬ (i : Int) < (j : Int) := by omega
      rw [if_neg hij', if_neg hij]

theorem sortSearchP_eq0 (items : List Item) (ts : Int) (f : Int → Bool)
    (hf : ∀ (h : Nat) (hh : h < items.length), f (h : Int) = decide (items[h].ts ≥ ts))
    (fuel : Nat) :
    Index.sortSearchP f fuel 0 (items.length : Int)
      = ((Index.sortSearch items ts fuel 0 items.length : Nat) : Int) :=
  sortSearchP_eq items ts f hf fuel 0 items.length (Nat.le_refl _)

end SearchTie

open SearchTie

theorem indexConsume_tie (items : List Item) (off : Int) :
    Gen.Search.indexConsume items off = Index.consume items off := by
  unfold Gen.Search.indexConsume Index.consume
  rcases items with _ | ⟨a, rest⟩
  · simp
  · obtain ⟨z, hz⟩ := getLast?_cons_some a rest
    have h0 : getI (a :: rest) 0 = .ok a := getI_zero rfl
    have hl := getI_last hz
    simp only [if_neg (length_cons_ne_zero a rest), List.head?_cons, hz, h0, hl,
      indexConsume_loop_tie]

theorem indexGet_tie (items : List Item) (off : Int) :
    Gen.Search.indexGet items off = Index.get items off := by
  unfold Gen.Search.indexGet Index.get
  rcases items with _ | ⟨a, rest⟩
  · simp
  · obtain ⟨z, hz⟩ := getLast?_cons_some a rest
    have h0 : getI (a :: rest) 0 = .ok a := getI_zero rfl
    have hl := getI_last hz
    simp only [if_neg (length_cons_ne_zero a rest), List.head?_cons, hz, h0, hl,
      indexGet_loop_tie]

theorem indexTime_tie (items : List Item) (ts : Int) :
    Gen.Search.indexTime items ts = Index.time items ts := by
  unfold Gen.Search.indexTime Index.time
  rcases items with _ | ⟨a, rest⟩
  · simp
  · obtain ⟨z, hz⟩ := getLast?_cons_some a rest
    have h0 : getI (a :: rest) 0 = .ok a := getI_zero rfl
    have hl := getI_last hz
    simp only [if_neg (length_cons_ne_zero a rest), List.head?_cons, hz, h0, hl]
    rw [sortSearchP_eq0 (a :: rest) ts]
    · rfl
    · intro h hh
      rw [getI_eq (a :: rest) (h : Int) (by omega) (by simpa using hh)]
      simp only [Int.toNat_natCast]

theorem segConsume_tie (bases : List Int) (off : Int) :
    Gen.Search.segConsume bases off = SegSearch.consume bases off := by
  unfold Gen.Search.segConsume SegSearch.consume
  rcases bases with _ | ⟨a, rest⟩
  · simp [getI_nil]
  · obtain ⟨z, hz⟩ := getLast?_cons_some a rest
    have h0 : getI (a :: rest) 0 = .ok a := getI_zero rfl
    have hl := getI_last hz
    simp only [List.head?_cons, hz, h0, hl, segConsume_loop_tie]

theorem segGet_tie (bases : List Int) (off : Int) :
    Gen.Search.segGet bases off = SegSearch.get bases off := by
  unfold Gen.Search.segGet SegSearch.get
  rcases bases with _ | ⟨a, rest⟩
  · simp [getI_nil]
  · obtain ⟨z, hz⟩ := getLast?_cons_some a rest
    have h0 : getI (a :: rest) 0 = .ok a := getI_zero rfl
    have hl := getI_last hz
    simp only [List.head?_cons, hz, h0, hl, segGet_loop_tie, liftGet]
    rfl

end Klev

#print axioms Klev.indexConsume_tie
#print axioms Klev.indexGet_tie
#print axioms Klev.indexTime_tie
#print axioms Klev.segConsume_tie
#print axioms Klev.segGet_tie
