/-
`Segment.Recover` is a byte-for-byte no-op on every segment `Segment.Check` accepts.
-/
import Klev.SegBytes
namespace Klev

theorem recover_noop_of_check (p : Params) (f : SegFiles) (h : Seg.check p f = .ok ()) :
    Seg.recover p f = .ok f := by
  unfold Seg.check at h
  unfold Seg.recover
  cases hv : logVersion f.log f.base with
  | error e => rw [hv] at h; simp at h
  | ok v =>
    rw [hv] at h
    simp only at h ⊢
    cases hfin : (scan v f.log).fin with
    | corrupt e => rw [hfin] at h; simp at h
    | clean =>
      rw [hfin] at h
      simp only at h ⊢
      cases hi : f.idx with
      | none => cases f; simp_all
      | some ib =>
        rw [hi] at h
        simp only at h ⊢
        cases hp : parseIdx p ib f.base with
        | error e => rw [hp] at h; simp at h
        | ok r =>
          obtain ⟨iv, items⟩ := r
          rw [hp] at h
          simp only at h ⊢
          by_cases heq : items = deriveScan p (scan v f.log).recs
          · simp only [heq, if_true]
            cases f; simp_all
          · simp [heq] at h

end Klev
