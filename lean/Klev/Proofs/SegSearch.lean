/-
`segment.Consume` / `segment.Get` select the last segment whose base offset is not above
the requested offset (the first segment when there is none), for every strictly
increasing list of base offsets and every offset; no panic, no divergence.
-/
import Klev.Proofs.IndexSearch
namespace Klev

def SortedB (bases : List Int) : Prop := bases.Pairwise (fun a b => a < b)

theorem sortedB_lt {bases : List Int} (h : SortedB bases) {i j : Nat} (hi : i < j)
    (hj : j < bases.length) : (bases[i]'(by omega)) < (bases[j]'hj) :=
  List.pairwise_iff_getElem.mp h i j (by omega) hj hi

/-- `i` is the segment an offset belongs to: the last one with `base ≤ off`. -/
def IsSegFor (bases : List Int) (off : Int) (i : Nat) : Prop :=
  ∃ h : i < bases.length, bases[i] ≤ off ∧ ∀ j, i < j → ∀ hj : j < bases.length, off < bases[j]

theorem SegSearch.loop_spec (bases : List Int) (off : Int) (hs : SortedB bases)
    (h0 : ∀ h : 0 < bases.length, bases[0] < off) :
    ∀ (fuel : Nat) (b e : Int), 0 ≤ b → e < bases.length → b ≤ e + 1 → b < bases.length →
      (e - b + 1 < fuel) →
      (∀ i : Nat, (i : Int) < b → ∀ h : i < bases.length, bases[i] < off) →
      (∀ i : Nat, e < (i : Int) → ∀ h : i < bases.length, off < bases[i]) →
      ∃ i : Nat, SegSearch.loop bases off fuel b e = .ok (i : Int) ∧ IsSegFor bases off i := by
  intro fuel
  induction fuel with
  | zero => intro b e _ _ _ _ hf; omega
  | succ n ih =>
    intro b e hb he hbe hbn hf hlo hhi
    unfold SegSearch.loop
    by_cases hlt : b < e
    · simp only [hlt, if_true]
      have hm0 : 0 ≤ (b + e) / 2 := by omega
      have hm1 : ((b + e) / 2).toNat < bases.length := by omega
      rw [getI_eq bases _ hm0 hm1]
      simp only
      by_cases h1 : bases[((b + e) / 2).toNat] < off
      · simp only [h1, if_true]
        refine ih _ _ (by omega) (by omega) (by omega) (by omega) (by omega) ?_ hhi
        intro i hi hlt2
        by_cases hc : i = ((b + e) / 2).toNat
        · subst hc; exact h1
        · have : i < ((b + e) / 2).toNat := by omega
          have := sortedB_lt hs this hm1
          omega
      · simp only [h1, if_false]
        by_cases h2 : bases[((b + e) / 2).toNat] > off
        · simp only [h2, if_true]
          refine ih _ _ (by omega) (by omega) (by omega) (by omega) (by omega) hlo ?_
          intro i hi hlt2
          by_cases hc : i = ((b + e) / 2).toNat
          · subst hc; exact h2
          · have : ((b + e) / 2).toNat < i := by omega
            have := sortedB_lt hs this hlt2
            omega
        · simp only [h2, if_false]
          refine ⟨((b + e) / 2).toNat, by congr 1; omega, hm1, by omega, ?_⟩
          intro j hj hjl
          have := sortedB_lt hs hj hjl
          omega
    · simp only [hlt, if_false]
      have hb1 : b.toNat < bases.length := by omega
      rw [getI_eq bases _ hb hb1]
      simp only
      by_cases h1 : bases[b.toNat] > off
      · simp only [h1, if_true]
        have hbpos : 0 < b := by
          by_cases h : 0 < b
          · exact h
          · have hb0 : b.toNat = 0 := by omega
            have := h0 (by omega)
            simp only [hb0] at h1
            omega
        have hb2 : (b - 1).toNat < bases.length := by omega
        rw [getI_eq bases _ (by omega) hb2]
        simp only
        refine ⟨(b - 1).toNat, by congr 1; omega, hb2, ?_, ?_⟩
        · have := hlo (b - 1).toNat (by omega) hb2; omega
        · intro j hj hjl
          by_cases hc : j = b.toNat
          · subst hc; exact h1
          · have : b.toNat < j := by omega
            have := sortedB_lt hs this hjl
            omega
      · simp only [h1, if_false]
        refine ⟨b.toNat, by congr 1; omega, hb1, by omega, ?_⟩
        intro j hj hjl
        exact hhi j (by omega) hjl

/-- `segment.Consume`: for an offset above the first base, the segment it belongs to. -/
theorem SegSearch.consume_spec (bases : List Int) (off : Int) (hs : SortedB bases)
    (hne : bases ≠ []) (h1 : off ≠ offsetOldest) (h2 : off ≠ offsetNewest)
    (hf : ∀ h : 0 < bases.length, bases[0] < off) :
    ∃ i : Nat, SegSearch.consume bases off = .ok (i : Int) ∧ IsSegFor bases off i := by
  unfold SegSearch.consume
  cases hh : bases.head? with
  | none => cases bases <;> simp_all
  | some first =>
    cases hl : bases.getLast? with
    | none => cases bases <;> simp_all
    | some last =>
      simp only [h1, h2, if_false]
      obtain ⟨h0, hf0⟩ := head?_eq_getElem hh
      obtain ⟨hn, hlast⟩ := getLast?_eq_getElem hl
      have hfo := hf h0
      rw [hf0] at hfo
      have c1 : ¬ off ≤ first := by omega
      simp only [c1, if_false]
      by_cases c2 : last ≤ off
      · simp only [c2, if_true]
        refine ⟨bases.length - 1, by congr 1; omega, hn, by rw [hlast]; exact c2, ?_⟩
        intro j hj hjl; omega
      · simp only [c2, if_false]
        refine SegSearch.loop_spec bases off hs hf _ _ _ (by omega) (by omega) (by omega) (by omega)
          (by omega) (by intro i hi; omega) ?_
        intro i hi hil
        have : i = bases.length - 1 := by omega
        subst this
        rw [hlast]; omega

/-- `segment.Consume` at or below the first base (and for `OffsetOldest`): the first segment. -/
theorem SegSearch.consume_first (bases : List Int) (off : Int) (hne : bases ≠ [])
    (h : off = offsetOldest ∨ (off ≠ offsetNewest ∧ ∀ h : 0 < bases.length, off ≤ bases[0])) :
    SegSearch.consume bases off = .ok 0 := by
  unfold SegSearch.consume
  cases hh : bases.head? with
  | none => cases bases <;> simp_all
  | some first =>
    cases hl : bases.getLast? with
    | none => cases bases <;> simp_all
    | some last =>
      simp only
      obtain ⟨h0, hf0⟩ := head?_eq_getElem hh
      rcases h with h | ⟨h2, h3⟩
      · simp [h]
      · have := h3 h0
        rw [hf0] at this
        by_cases c : off = offsetOldest
        · simp [c]
        · simp [c, h2, this]

theorem SegSearch.consume_newest (bases : List Int) (hne : bases ≠ []) :
    SegSearch.consume bases offsetNewest = .ok ((bases.length : Int) - 1) := by
  unfold SegSearch.consume
  cases hh : bases.head? with
  | none => cases bases <;> simp_all
  | some first =>
    cases hl : bases.getLast? with
    | none => cases bases <;> simp_all
    | some last => simp [offsetNewest, offsetOldest]

/-- `segment.Get` for a non-relative offset: before the first base it reports
"relative" (first base 0) or "before start"; otherwise the segment the offset belongs to. -/
theorem SegSearch.get_spec (bases : List Int) (off : Int) (hs : SortedB bases)
    (hne : bases ≠ []) (h1 : off ≠ offsetOldest) (h2 : off ≠ offsetNewest) :
    (∃ h0 : 0 < bases.length, off < bases[0] ∧
        SegSearch.get bases off = .ok (.error (if bases[0] = 0 then .relative else .beforeStart))) ∨
    (∃ i : Nat, SegSearch.get bases off = .ok (.ok (i : Int)) ∧ IsSegFor bases off i) := by
  unfold SegSearch.get
  cases hh : bases.head? with
  | none => cases bases <;> simp_all
  | some first =>
    cases hl : bases.getLast? with
    | none => cases bases <;> simp_all
    | some last =>
      simp only [h1, h2, if_false]
      obtain ⟨h0, hf0⟩ := head?_eq_getElem hh
      obtain ⟨hn, hlast⟩ := getLast?_eq_getElem hl
      by_cases c1 : off < first
      · left
        refine ⟨h0, by rw [hf0]; exact c1, ?_⟩
        simp only [c1, if_true, hf0]
        split <;> rfl
      · right
        simp only [c1, if_false]
        by_cases c2 : off = first
        · simp only [c2, if_true]
          refine ⟨0, rfl, h0, by rw [hf0]; omega, ?_⟩
          intro j hj hjl
          have := sortedB_lt hs hj hjl
          rw [hf0] at this; omega
        · simp only [c2, if_false]
          by_cases c3 : last ≤ off
          · simp only [c3, if_true]
            refine ⟨bases.length - 1, by congr 2; omega, hn, by rw [hlast]; exact c3, ?_⟩
            intro j hj hjl; omega
          · simp only [c3, if_false]
            obtain ⟨i, hi, hseg⟩ := SegSearch.loop_spec bases off hs (by intro h; rw [hf0]; omega) _ _ _
              (by omega) (by omega) (by omega) (by omega) (by omega : (bases.length : Int) - 1 - 0 + 1 < (bases.length + 1 : Nat))
              (by intro i hi; omega)
              (by intro i hi hil
                  have : i = bases.length - 1 := by omega
                  subst this
                  rw [hlast]; omega)
            exact ⟨i, by rw [hi], hseg⟩

end Klev
