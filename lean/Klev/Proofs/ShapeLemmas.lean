/-
List facts about shapes (base, records) of the segment list: where the messages a
cursor still has to see live.
-/
import Klev.Proofs.Reader
import Klev.Proofs.SegSearch
namespace Klev

def flat (sh : Shape) : List Msg := sh.flatMap (·.2)

theorem flat_split (sh : Shape) (i : Nat) (hi : i < sh.length) :
    flat sh = flat (sh.take i) ++ (sh[i]).2 ++ flat (sh.drop (i + 1)) := by
  unfold flat
  calc List.flatMap (fun x => x.2) sh
      = List.flatMap (fun x => x.2) (sh.take i ++ sh.drop i) := by rw [List.take_append_drop]
    _ = List.flatMap (fun x => x.2) (sh.take i) ++ List.flatMap (fun x => x.2) (sh.drop i) :=
        List.flatMap_append
    _ = _ := by rw [List.drop_eq_getElem_cons hi, List.flatMap_cons, List.append_assoc]

theorem mem_flat {sh : Shape} {m : Msg} (h : m ∈ flat sh) :
    ∃ j, ∃ hj : j < sh.length, m ∈ (sh[j]).2 := by
  unfold flat at h
  rw [List.mem_flatMap] at h
  obtain ⟨br, hbr, hm⟩ := h
  obtain ⟨j, hj, rfl⟩ := List.getElem_of_mem hbr
  exact ⟨j, hj, hm⟩

theorem shape_bases (segs : List Seg) : segs.map (·.base) = (shape segs).map (·.1) := by
  simp [shape, List.map_map, Function.comp_def]

theorem ShapeOK.sortedB {sh : Shape} (h : ShapeOK sh) : SortedB (sh.map (·.1)) := by
  unfold SortedB
  rw [List.pairwise_map]
  exact h.order.imp (fun hab => hab.1)

theorem ShapeOK.base_lt {sh : Shape} (h : ShapeOK sh) {i j : Nat} (hij : i < j) (hj : j < sh.length) :
    (sh[i]'(by omega)).1 < (sh[j]).1 :=
  (List.pairwise_iff_getElem.mp h.order i j (by omega) hj hij).1

theorem ShapeOK.rec_lt_base {sh : Shape} (h : ShapeOK sh) {i j : Nat} (hij : i < j) (hj : j < sh.length)
    {m : Msg} (hm : m ∈ (sh[i]'(by omega)).2) : m.off < (sh[j]).1 :=
  (List.pairwise_iff_getElem.mp h.order i j (by omega) hj hij).2 m hm

theorem ShapeOK.rec_nonneg {sh : Shape} (h : ShapeOK sh) {m : Msg} (hm : m ∈ flat sh) : 0 ≤ m.off := by
  obtain ⟨j, hj, hmj⟩ := mem_flat hm
  have := h.lower _ (List.getElem_mem hj) m hmj
  have := h.base0 _ (List.getElem_mem hj)
  omega

/-- `i` is where a cursor at `off` starts: everything before segment `i` is below `off`,
every later segment starts above `off`. -/
structure SegStart (sh : Shape) (off : Int) (i : Nat) : Prop where
  lt : i < sh.length
  before : ∀ j, j < i → ∀ hj : j < sh.length, ∀ m ∈ (sh[j]).2, m.off < off
  after : ∀ j, i < j → ∀ hj : j < sh.length, off < (sh[j]).1

theorem SegStart.of_isSegFor {sh : Shape} (h : ShapeOK sh) {off : Int} {i : Nat}
    (hseg : IsSegFor (sh.map (·.1)) off i) : SegStart sh off i := by
  obtain ⟨hi, hle, hafter⟩ := hseg
  have hi' : i < sh.length := by simpa using hi
  refine ⟨hi', ?_, ?_⟩
  · intro j hj hjl m hm
    have := h.rec_lt_base hj hi' hm
    simp only [List.getElem_map] at hle
    omega
  · intro j hj hjl
    have := hafter j hj (by simpa using hjl)
    simpa using this

theorem SegStart.first {sh : Shape} (h : ShapeOK sh) {off : Int}
    (hle : ∀ h0 : 0 < sh.length, off ≤ (sh[0]).1) : SegStart sh off 0 := by
  have h0 : 0 < sh.length := List.length_pos_iff.mpr h.ne
  refine ⟨h0, by intro j hj; omega, ?_⟩
  intro j hj hjl
  have := h.base_lt hj hjl
  have := hle h0
  omega

/-- The messages a cursor at `off` still has to see: those of its segment, then all later
segments. -/
theorem fromOff_split {sh : Shape} (h : ShapeOK sh) {off : Int} {i : Nat} (hs : SegStart sh off i) :
    Spec.fromOff (absShape sh) off = segFrom (sh[i]'hs.lt).2 off ++ flat (sh.drop (i + 1)) := by
  unfold Spec.fromOff absShape
  simp only
  have := flat_split sh i hs.lt
  unfold flat at this
  rw [this, List.filter_append, List.filter_append]
  have h1 : (List.flatMap (fun x => x.2) (sh.take i)).filter (fun m => decide (off ≤ m.off)) = [] := by
    rw [List.filter_eq_nil_iff]
    intro m hm
    obtain ⟨j, hj, hmj⟩ := mem_flat (sh := sh.take i) hm
    simp only [List.length_take] at hj
    simp only [List.getElem_take] at hmj
    have := hs.before j (by omega) (by omega) m hmj
    simp only [decide_eq_true_eq]; omega
  have h2 : (List.flatMap (fun x => x.2) (sh.drop (i + 1))).filter (fun m => decide (off ≤ m.off)) =
      List.flatMap (fun x => x.2) (sh.drop (i + 1)) := by
    rw [List.filter_eq_self]
    intro m hm
    obtain ⟨j, hj, hmj⟩ := mem_flat (sh := sh.drop (i + 1)) hm
    simp only [List.length_drop] at hj
    simp only [List.getElem_drop] at hmj
    have h3 := hs.after (i + 1 + j) (by omega) (by omega)
    have h4 := h.lower _ (List.getElem_mem (by omega : i + 1 + j < sh.length)) m hmj
    simp only [decide_eq_true_eq]; omega
  rw [h1, h2]
  simp [segFrom, flat]

theorem shapeNext_last (sh : Shape) (hne : sh ≠ []) :
    shapeNext sh = recsNext (sh[sh.length - 1]'(by have := List.length_pos_iff.mpr hne; omega)).1
      (sh[sh.length - 1]'(by have := List.length_pos_iff.mpr hne; omega)).2 := by
  unfold shapeNext
  rw [List.getLast?_eq_some_getLast hne, List.getLast_eq_getElem]

theorem lastOffOr_eq {v : Ver} {recs : List Msg} {its : List Item} (h : ItemsFor v recs its) (base : Int) :
    lastOffOr its base = recsNext base recs := by
  unfold lastOffOr recsNext
  have hlen := h.length
  cases hl : its.getLast? with
  | none =>
    have : its = [] := by cases its <;> simp_all
    have : recs = [] := by
      apply List.eq_nil_of_length_eq_zero; rw [← hlen, this]; rfl
    simp [this]
  | some last =>
    obtain ⟨hn, hlast⟩ := getLast?_eq_getElem hl
    obtain ⟨_, h3, ho, _⟩ := h.getElem _ hn
    have hrne : recs ≠ [] := by intro he; rw [he] at h3; simp at h3
    rw [List.getLast?_eq_some_getLast hrne, List.getLast_eq_getElem]
    simp only
    rw [← hlast, ho]
    have : its.length - 1 = recs.length - 1 := by omega
    simp only [this]

/-- Every live message is below the next offset. -/
theorem ShapeOK.lt_next {sh : Shape} (h : ShapeOK sh) {m : Msg} (hm : m ∈ flat sh) :
    m.off < shapeNext sh := by
  have hpos := List.length_pos_iff.mpr h.ne
  rw [shapeNext_last sh h.ne]
  obtain ⟨j, hj, hmj⟩ := mem_flat hm
  have hlast : sh.length - 1 < sh.length := by omega
  -- the last record of the head bounds everything
  have hhead : ∀ m' ∈ (sh[sh.length - 1]).2, m'.off < recsNext (sh[sh.length - 1]).1 (sh[sh.length - 1]).2 := by
    intro m' hm'
    unfold recsNext
    have hne : (sh[sh.length - 1]).2 ≠ [] := List.ne_nil_of_mem hm'
    rw [List.getLast?_eq_some_getLast hne]
    simp only
    obtain ⟨k, hk, rfl⟩ := List.getElem_of_mem hm'
    rw [List.getLast_eq_getElem]
    by_cases hc : k = (sh[sh.length - 1]).2.length - 1
    · subst hc; omega
    · have := List.pairwise_iff_getElem.mp (h.sorted _ (List.getElem_mem hlast)) k
        ((sh[sh.length - 1]).2.length - 1) hk (by omega) (by omega)
      omega
  by_cases hc : j = sh.length - 1
  · subst hc; exact hhead m hmj
  · have h1 := h.rec_lt_base (i := j) (j := sh.length - 1) (by omega) hlast hmj
    -- base of the head ≤ next
    have : (sh[sh.length - 1]).1 ≤ recsNext (sh[sh.length - 1]).1 (sh[sh.length - 1]).2 := by
      unfold recsNext
      cases hl : (sh[sh.length - 1]).2.getLast? with
      | none => simp
      | some lm =>
        simp only
        have hmem : lm ∈ (sh[sh.length - 1]).2 := List.mem_of_getLast? hl
        have := h.lower _ (List.getElem_mem hlast) lm hmem
        omega
    omega

theorem recsNext_ge (base : Int) (recs : List Msg) (hl : ∀ m ∈ recs, base ≤ m.off) :
    base ≤ recsNext base recs := by
  unfold recsNext
  cases h : recs.getLast? with
  | none => simp
  | some lm =>
    simp only
    have := hl lm (List.mem_of_getLast? h)
    omega

theorem ShapeOK.base_le_next {sh : Shape} (h : ShapeOK sh) (j : Nat) (hj : j < sh.length) :
    (sh[j]).1 ≤ shapeNext sh := by
  rw [shapeNext_last sh h.ne]
  have hlast : sh.length - 1 < sh.length := by omega
  have h1 := recsNext_ge (sh[sh.length - 1]).1 (sh[sh.length - 1]).2 (h.lower _ (List.getElem_mem hlast))
  by_cases hc : j = sh.length - 1
  · subst hc; exact h1
  · have := h.base_lt (i := j) (j := sh.length - 1) (by omega) hlast
    omega

theorem ShapeOK.next_nonneg {sh : Shape} (h : ShapeOK sh) : 0 ≤ shapeNext sh := by
  have hpos := List.length_pos_iff.mpr h.ne
  have := h.base_le_next 0 hpos
  have := h.base0 _ (List.getElem_mem hpos)
  omega

theorem segFrom_all (recs : List Msg) (off : Int) (h : ∀ m ∈ recs, off ≤ m.off) :
    segFrom recs off = recs := by
  unfold segFrom
  rw [List.filter_eq_self]
  intro m hm
  simpa using h m hm

theorem flat_drop_cons (sh : Shape) (j : Nat) (hj : j < sh.length) :
    flat (sh.drop j) = (sh[j]).2 ++ flat (sh.drop (j + 1)) := by
  unfold flat
  rw [List.drop_eq_getElem_cons hj, List.flatMap_cons]

theorem flat_drop_len (sh : Shape) (j : Nat) (hj : sh.length ≤ j) : flat (sh.drop j) = [] := by
  unfold flat
  rw [List.drop_eq_nil_of_le hj]; rfl

end Klev
