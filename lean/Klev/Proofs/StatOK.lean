import Klev.Proofs.HelpersOK
namespace Klev

/-- Extra invariant clause: a segment whose index is in memory has an index file. -/
def MemIdx (l : Log) : Prop := ∀ s ∈ l.segs, s.mem.isSome = true → s.idxf.isSome = true

/-- Bytes of the files of one segment (log file + index file if present). -/
def segFileSize (p : Params) (s : Seg) : Int :=
  logSize s.ver s.recs + (match s.idxf with | some f => idxSize p f | none => 0)

theorem segFileSize_some (p : Params) (s : Seg) (f : IdxFile) (hf : s.idxf = some f) :
    segFileSize p s = logSize s.ver s.recs + idxSize p f := by
  unfold segFileSize; rw [hf]

/-! ### loadIndex -/

/-- After `loadIndex` of a segment satisfying the clause the index file exists. -/
theorem loadIndex_idxf_some (o : Opts) (s : Seg) (h : s.mem.isSome = true → s.idxf.isSome = true) :
    (loadIndex o s).1.idxf.isSome = true := by
  unfold loadIndex
  cases hm : s.mem with
  | some its =>
    simp only
    exact h (by rw [hm]; rfl)
  | none =>
    simp only
    unfold reindexAndRead
    by_cases hr : needsReindex s = true
    · simp only [hr, if_true]
      rfl
    · simp only [hr]
      cases hf : s.idxf with
      | none => simp [needsReindex, hf] at hr
      | some f =>
        simp only [Bool.false_eq_true, if_false]
        rfl

theorem loadIndex_memIdx (o : Opts) (s : Seg) (h : s.mem.isSome = true → s.idxf.isSome = true) :
    (loadIndex o s).1.mem.isSome = true → (loadIndex o s).1.idxf.isSome = true :=
  fun _ => loadIndex_idxf_some o s h

/-- `loadIndex` always leaves the index in memory. -/
theorem loadIndex_mem_some (o : Opts) (s : Seg) : (loadIndex o s).1.mem.isSome = true := by
  unfold loadIndex
  cases hm : s.mem with
  | some its => simp only; rw [hm]; rfl
  | none => simp only; rfl

/-! ### withIndex -/

theorem withIndex_memIdx (l : Log) (i : Nat) (hmi : MemIdx l) {l1 : Log} {s : Seg} {its : List Item}
    {c : RCtx} (hw : withIndex l i = some (l1, s, its, c)) : MemIdx l1 := by
  unfold withIndex at hw
  cases hs : l.segs[i]? with
  | none => rw [hs] at hw; simp at hw
  | some s0 =>
    rw [hs] at hw
    simp only [Option.some.injEq, Prod.mk.injEq] at hw
    obtain ⟨hl1, _, _, _⟩ := hw
    subst hl1
    have hs0 : s0 ∈ l.segs := List.mem_of_getElem? hs
    intro t ht
    unfold setSeg at ht
    simp only at ht
    rcases List.mem_or_eq_of_mem_set ht with h | h
    · exact hmi t h
    · subst h
      exact loadIndex_memIdx l.opts s0 (hmi s0 hs0)

/-- For a read-write log satisfying Inv the head satisfies the clause (HeadOK); stated for
convenience. -/
theorem memIdx_head (l : Log) (h : Inv l) (hro : l.opts.readonly = false) :
    ∀ hd, l.segs.getLast? = some hd → (hd.mem.isSome = true → hd.idxf.isSome = true) := by
  intro hd hl _
  obtain ⟨its, _, f, hf, _⟩ := (h.head hro hd hl).loaded
  rw [hf]; rfl

/-! ### one segment -/

/-- `reader.Stat` on a segment satisfying the invariant and the clause. -/
theorem segStat_spec (o : Opts) (s : Seg) (hidx : IdxOK s)
    (hm : s.mem.isSome = true → s.idxf.isSome = true) :
    (∃ f, (segStat o s).1.idxf = some f) ∧
      (segStat o s).2 = some ⟨1, (s.recs.length : Int), segFileSize o.params (segStat o s).1⟩ ∧
      (segStat o s).1.base = s.base ∧ (segStat o s).1.ver = s.ver ∧
      (segStat o s).1.recs = s.recs ∧ IdxOK (segStat o s).1 ∧
      ((segStat o s).1.mem.isSome = true → (segStat o s).1.idxf.isSome = true) ∧
      (s.idxf.isSome = true → (segStat o s).1 = s) := by
  cases hf : s.idxf with
  | some f =>
    have hlen : f.items.length = s.recs.length := (hidx.idx f hf).length
    have h1 : segStat o s = (s, some ⟨1, (s.recs.length : Int), segFileSize o.params s⟩) := by
      unfold segStat
      simp only [hf]
      rw [segFileSize_some _ _ _ hf, hlen]
    rw [h1]
    exact ⟨⟨f, hf⟩, rfl, rfl, rfl, rfl, hidx, fun _ => by rw [hf]; rfl, fun _ => rfl⟩
  | none =>
    obtain ⟨hb, hv, hr, _, hok, _⟩ := loadIndex_spec o s hidx
    have hsome := loadIndex_idxf_some o s hm
    cases hg : (loadIndex o s).1.idxf with
    | none => rw [hg] at hsome; simp at hsome
    | some g =>
      have hlen : g.items.length = s.recs.length := by
        have := (hok.idx g hg).length
        rw [this, hr]
      have h1 : segStat o s = ((loadIndex o s).1,
          some ⟨1, (s.recs.length : Int), segFileSize o.params (loadIndex o s).1⟩) := by
        unfold segStat
        simp only [hf, hg]
        rw [segFileSize_some _ _ _ hg, hlen]
      rw [h1]
      exact ⟨⟨g, hg⟩, rfl, hb, hv, hr, hok, fun _ => by rw [hg]; rfl, fun h => by simp at h⟩

/-! ### the segment list -/

theorem flat_shape_cons (s : Seg) (rest : List Seg) :
    flat (shape (s :: rest)) = s.recs ++ flat (shape rest) := by
  simp [flat, shape]

theorem stat_go_spec (o : Opts) : ∀ (segs : List Seg), (∀ s ∈ segs, IdxOK s) →
    (∀ s ∈ segs, s.mem.isSome = true → s.idxf.isSome = true) →
    ∃ st, Log.stat.go o segs = (segs.map (fun s => (segStat o s).1), some st) ∧
      st.segments = (segs.length : Int) ∧ st.messages = ((flat (shape segs)).length : Int) ∧
      st.size = ((segs.map (fun s => (segStat o s).1)).map (segFileSize o.params)).sum
  | [], _, _ => by
    refine ⟨⟨0, 0, 0⟩, ?_, rfl, rfl, rfl⟩
    unfold Log.stat.go; rfl
  | s :: rest, hidx, hmi => by
    obtain ⟨st2, hgo, hseg, hmsg, hsz⟩ := stat_go_spec o rest
      (fun t ht => hidx t (List.mem_cons_of_mem _ ht))
      (fun t ht => hmi t (List.mem_cons_of_mem _ ht))
    obtain ⟨_, h2, _⟩ := segStat_spec o s (hidx s List.mem_cons_self) (hmi s List.mem_cons_self)
    refine ⟨⟨1 + st2.segments, (s.recs.length : Int) + st2.messages,
      segFileSize o.params (segStat o s).1 + st2.size⟩, ?_, ?_, ?_, ?_⟩
    · unfold Log.stat.go
      simp only [h2, hgo, List.map_cons]
    · simp only [hseg, List.length_cons]; omega
    · simp only [hmsg, flat_shape_cons, List.length_append]; omega
    · simp only [hsz, List.map_cons, List.sum_cons]

theorem shape_map_segStat (o : Opts) : ∀ (segs : List Seg), (∀ s ∈ segs, IdxOK s) →
    (∀ s ∈ segs, s.mem.isSome = true → s.idxf.isSome = true) →
    shape (segs.map (fun s => (segStat o s).1)) = shape segs
  | [], _, _ => rfl
  | s :: rest, hidx, hmi => by
    obtain ⟨_, _, hb, _, hr, _⟩ := segStat_spec o s (hidx s List.mem_cons_self) (hmi s List.mem_cons_self)
    have ih := shape_map_segStat o rest
      (fun t ht => hidx t (List.mem_cons_of_mem _ ht))
      (fun t ht => hmi t (List.mem_cons_of_mem _ ht))
    unfold shape at ih ⊢
    simp only [List.map_cons, hb, hr, ih]

/-! ### the log -/

/-- **Stat**: on a log satisfying the invariant (and the MemIdx clause) Stat succeeds, counts
exactly the live messages and the segments, reports the total size of all segment files (after
rebuilding missing index files), and only loads/rebuilds indexes. -/
theorem stat_spec (l : Log) (h : Inv l) (hmi : MemIdx l) :
    ∃ st, (l.stat).2 = .ok st ∧ st.messages = ((abs l).live.length : Int) ∧
      st.segments = (l.segs.length : Int) ∧
      Loaded l (l.stat).1 ∧ MemIdx (l.stat).1 ∧ (∀ s ∈ (l.stat).1.segs, s.idxf.isSome = true) ∧
      st.size = ((l.stat).1.segs.map (segFileSize l.opts.params)).sum := by
  obtain ⟨st, hgo, hseg, hmsg, hsz⟩ := stat_go_spec l.opts l.segs h.idx hmi
  have hst : l.stat = ({ l with segs := l.segs.map (fun s => (segStat l.opts s).1) }, .ok st) := by
    unfold Log.stat
    simp only [hgo]
  have hsh := shape_map_segStat l.opts l.segs h.idx hmi
  rw [hst]
  refine ⟨st, rfl, ?_, hseg, ⟨⟨?_, ?_, ?_, ?_⟩, hsh, rfl, rfl, rfl⟩, ?_, ?_, hsz⟩
  · rw [abs_live]; exact hmsg
  · show ShapeOK (shape (l.segs.map (fun s => (segStat l.opts s).1)))
    rw [hsh]; exact h.shape
  · intro t ht
    simp only [List.mem_map] at ht
    obtain ⟨s, hs, rfl⟩ := ht
    exact (segStat_spec l.opts s (h.idx s hs) (hmi s hs)).2.2.2.2.2.1
  · intro hro
    show l.wNextOff = shapeNext (shape (l.segs.map (fun s => (segStat l.opts s).1)))
    rw [hsh]; exact h.next hro
  · intro hro hd hl
    simp only [List.getLast?_map] at hl
    cases hl0 : l.segs.getLast? with
    | none => rw [hl0] at hl; simp at hl
    | some hd0 =>
      rw [hl0] at hl
      simp only [Option.map_some, Option.some.injEq] at hl
      have hH := h.head hro hd0 hl0
      obtain ⟨its, _, f, hf, _⟩ := hH.loaded
      have hmem : hd0 ∈ l.segs := List.mem_of_getLast? hl0
      have hsame := (segStat_spec l.opts hd0 (h.idx _ hmem) (hmi _ hmem)).2.2.2.2.2.2.2
        (by rw [hf]; rfl)
      rw [← hl, hsame]; exact hH
  · intro t ht
    simp only [List.mem_map] at ht
    obtain ⟨s, hs, rfl⟩ := ht
    exact (segStat_spec l.opts s (h.idx s hs) (hmi s hs)).2.2.2.2.2.2.1
  · intro t ht
    simp only [List.mem_map] at ht
    obtain ⟨s, hs, rfl⟩ := ht
    obtain ⟨⟨f, hf⟩, _⟩ := segStat_spec l.opts s (h.idx s hs) (hmi s hs)
    rw [hf]; rfl

/-- The L0 relation of C13. -/
theorem stat_ok (l : Log) (h : Inv l) (hmi : MemIdx l) : Spec.StatOK (abs l) (l.stat).2 := by
  obtain ⟨st, hst, hmsg, hseg, _⟩ := stat_spec l h hmi
  rw [hst]
  unfold Spec.StatOK
  simp only
  left
  refine ⟨hmsg, ?_⟩
  have := segs_pos l h
  rw [hseg]; omega

end Klev

#print axioms Klev.loadIndex_memIdx
#print axioms Klev.loadIndex_idxf_some
#print axioms Klev.withIndex_memIdx
#print axioms Klev.memIdx_head
#print axioms Klev.segStat_spec
#print axioms Klev.stat_spec
#print axioms Klev.stat_ok
