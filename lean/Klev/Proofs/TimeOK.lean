/-
`Log.getByTime` satisfies the L0 relation `GetByTimeOK` on every log that satisfies the
invariant, whose indexes carry the times of their records (`TimesInv`), whose message
times never decrease (`Spec.Monotone`) and whose segments start at their base offset
(`FirstAtBase`) — the refinement theorem for C10.
-/
import Klev.Proofs.IdxExtra
namespace Klev

/-! ### the extra index predicate: items carry the times of the records -/

def TimesFor (recs : List Msg) (its : List Item) : Prop :=
  its.map (·.ts) = recs.map (·.time)

def TimesInv (l : Log) : Prop :=
  ∀ s ∈ l.segs, (∀ its, s.mem = some its → TimesFor s.recs its) ∧
    (∀ f, s.idxf = some f → TimesFor s.recs f.items)

/-- The first record of every segment sits at the segment's base offset. -/
def FirstAtBase (l : Log) : Prop :=
  ∀ s ∈ l.segs, ∀ m, s.recs.head? = some m → m.off = s.base

theorem deriveFrom_times (p : Params) (hp : p.times = true) : ∀ (ts : Int) (L : List (Int × Msg)),
    (∀ pm ∈ L, ts ≤ pm.2.time) → L.Pairwise (fun a b => a.2.time ≤ b.2.time) →
    (deriveFrom p ts L).map (·.ts) = L.map (fun pm => pm.2.time) := by
  intro ts L
  induction L generalizing ts with
  | nil => intro _ _; rfl
  | cons pm rest ih =>
    intro hge hpw
    obtain ⟨pos, m⟩ := pm
    have hpc := List.pairwise_cons.mp hpw
    have hm : ts ≤ m.time := hge (pos, m) (by simp)
    have hts : (newItem p m pos ts).ts = m.time := by
      simp only [newItem, hp, if_true]
      omega
    simp only [deriveFrom, List.map_cons, hts]
    rw [ih m.time (fun pm h => hpc.1 pm h) hpc.2]

/-- A rebuilt index carries the record times when the time index is configured and the
record times are non-negative and never decrease. -/
theorem derive_timesFor (p : Params) (v : Ver) (recs : List Msg) (hp : p.times = true)
    (hmono : recs.Pairwise (fun a b => a.time ≤ b.time)) (h0 : ∀ m ∈ recs, 0 ≤ m.time) :
    TimesFor recs (derive p v recs) := by
  unfold TimesFor derive
  rw [deriveFrom_times p hp]
  · have := congrArg (List.map (fun m : Msg => m.time)) (layout_map_snd v recs)
    simpa [List.map_map, Function.comp_def] using this
  · intro pm hpm
    apply h0
    rw [← layout_map_snd v recs]
    exact List.mem_map_of_mem hpm
  · rw [← layout_map_snd v recs] at hmono
    exact (List.pairwise_map (R := fun a b : Msg => a.time ≤ b.time)).mp hmono

/-- Under `Monotone`, the records of every segment have non-decreasing, non-negative times. -/
theorem seg_times_mono (l : Log) (hm : Spec.Monotone (abs l)) :
    ∀ s ∈ l.segs, s.recs.Pairwise (fun a b => a.time ≤ b.time) ∧ ∀ m ∈ s.recs, 0 ≤ m.time := by
  intro s hs
  obtain ⟨i, hi, rfl⟩ := List.getElem_of_mem hs
  have hsi := shape_getElem l.segs i hi
  have hsub := seg_sublist_flat (shape l.segs) i (by rw [shape_length]; exact hi)
  rw [hsi] at hsub
  have hlive : (abs l).live = flat (shape l.segs) := rfl
  obtain ⟨h1, h2⟩ := hm
  rw [hlive] at h1 h2
  exact ⟨h1.sublist hsub, fun m hmem => h2 m (hsub.subset hmem)⟩

/-- Loading an index keeps `TimesInv`, and the loaded items carry the record times. -/
theorem withIndex_times (l : Log) (i : Nat) (ht : TimesInv l) (hp : l.opts.params.times = true)
    (hm : Spec.Monotone (abs l))
    {l1 : Log} {s' : Seg} {its : List Item} {c : RCtx}
    (hw : withIndex l i = some (l1, s', its, c)) : TimesInv l1 ∧ TimesFor s'.recs its :=
  withIndex_P TimesFor l i ht
    (fun s hs => derive_timesFor _ _ _ hp (seg_times_mono l hm s hs).1 (seg_times_mono l hm s hs).2) hw

/-! ### `reader.GetByTime` -/

/-- Item `it` names record `m` of segment `s` and carries its time. -/
def TimeRel (s : Seg) (it : Item) (m : Msg) : Prop :=
  readAt s it.pos = some m ∧ it.ts = m.time

theorem timeRel_all {s : Seg} {its : List Item} (hit : ItemsFor s.ver s.recs its)
    (ht : TimesFor s.recs its) : All2 (TimeRel s) its s.recs := by
  apply all2_of_getElem _ _ hit.length
  intro k h1 h2
  obtain ⟨_, hr⟩ := readAt_item hit k h1
  exact ⟨hr, (map_eq_getElem ht).2 k h1 h2⟩

theorem timesFor_sorted {recs : List Msg} {its : List Item} (ht : TimesFor recs its)
    (hs : recs.Pairwise (fun a b => a.time ≤ b.time)) : SortedTs its := by
  rw [SortedTs, List.pairwise_iff_getElem]
  intro i j hi hj hij
  obtain ⟨hl, hg⟩ := map_eq_getElem ht
  rw [hg i hi (by omega), hg j hj (by omega)]
  exact List.pairwise_iff_getElem.mp hs i j (by omega) (by omega) hij

theorem find_time_read {s : Seg} (t : Int) {its : List Item} {recs : List Msg}
    (hall : All2 (TimeRel s) its recs) :
    match its.find? (fun x => decide (t ≤ x.ts)) with
    | some it => ∃ m, readAt s it.pos = some m ∧ recs.find? (fun m => decide (t ≤ m.time)) = some m
    | none => recs.find? (fun m => decide (t ≤ m.time)) = none := by
  induction hall with
  | nil => rfl
  | @cons a b as bs hab _ ih =>
    obtain ⟨hr, hts⟩ := hab
    simp only [List.find?_cons, hts]
    by_cases hc : t ≤ b.time
    · simp only [hc, decide_true]; exact ⟨_, hr, rfl⟩
    · simp only [hc, decide_false]; exact ih

theorem all2_head {α β : Type} {R : α → β → Prop} {l1 : List α} {l2 : List β} (h : All2 R l1 l2) :
    (l1 = [] ∧ l2 = []) ∨
    (∃ a b, l1.head? = some a ∧ l2.head? = some b ∧ R a b) := by
  cases h with
  | nil => exact Or.inl ⟨rfl, rfl⟩
  | cons hab _ => exact Or.inr ⟨_, _, rfl, rfl, hab⟩

theorem all2_getLast {α β : Type} {R : α → β → Prop} {l1 : List α} {l2 : List β} (h : All2 R l1 l2) :
    ∀ a, l1.getLast? = some a → ∃ b, l2.getLast? = some b ∧ R a b := by
  induction h with
  | nil => intro a h; simp at h
  | cons hab htl ih =>
    intro a ha
    cases htl with
    | nil =>
      simp only [List.getLast?_singleton, Option.some.injEq] at ha ⊢
      subst ha
      exact ⟨_, rfl, hab⟩
    | cons hab2 htl2 =>
      rw [List.getLast?_cons_cons] at ha ⊢
      exact ih a ha

/-- What `reader.GetByTime` returns on a consistent segment, in terms of its records. -/
def readerGetByTimeSpec (recs : List Msg) (t : Int) : ROut Msg :=
  match recs.head?, recs.getLast? with
  | some f, some la =>
    if t < f.time then .ierr .timeBefore
    else if la.time < t then .ierr .timeAfter
    else match recs.find? (fun m => decide (t ≤ m.time)) with
      | some m => .ok m
      | none => .ierr .panic
  | _, _ => .ierr .timeEmpty

theorem readerGetByTime_spec (s : Seg) (its : List Item) (t : Int)
    (hit : ItemsFor s.ver s.recs its) (ht : TimesFor s.recs its)
    (hs : s.recs.Pairwise (fun a b => a.time ≤ b.time)) :
    readerGetByTime s its t = readerGetByTimeSpec s.recs t := by
  have hall := timeRel_all hit ht
  unfold readerGetByTime readerGetByTimeSpec
  rw [Index.time_eq_spec its t (timesFor_sorted ht hs)]
  unfold Index.timeSpec
  rcases all2_head hall with ⟨h1, h2⟩ | ⟨a, b, ha, hb, _, hab⟩
  · rw [h1, h2]; rfl
  · have hne : its ≠ [] := by intro h; rw [h] at ha; simp at ha
    obtain ⟨la, hla⟩ : ∃ la, its.getLast? = some la := ⟨_, List.getLast?_eq_some_getLast hne⟩
    obtain ⟨lb, hlb, _, hlab⟩ := all2_getLast hall la hla
    rw [ha, hb, hla, hlb]
    simp only [hab, hlab]
    by_cases c1 : t < b.time
    · simp [c1]
    simp only [c1, if_false]
    by_cases c2 : lb.time < t
    · simp [c2]
    simp only [c2, if_false]
    have hf := find_time_read t hall
    cases hfd : its.find? (fun x => decide (t ≤ x.ts)) with
    | none => rw [hfd] at hf; rw [hf]
    | some it =>
      rw [hfd] at hf
      obtain ⟨m, hrm, hfm⟩ := hf
      simp only [hrm, hfm]

/-! ### `log.GetByTime` -/

/-- The body of `GetByTimeOK` over the live messages. -/
def TimeRes (live : List Msg) (t : Int) (r : Out Msg) : Prop :=
  match live.find? (fun m => decide (t ≤ m.time)) with
  | some m => r = .ok m
  | none => r = .err .notFound ∨ (live = [] ∧ r = .err .invalidOffset)

/-- What every exit of the walk establishes. -/
structure WalkOK (l : Log) (live : List Msg) (t : Int) (r : Log × Out Msg) : Prop where
  loaded : Loaded l r.1
  times : TimesInv r.1
  res : TimeRes live t r.2

theorem WalkOK.trans {l l1 : Log} {live : List Msg} {t : Int} {r : Log × Out Msg}
    (h1 : Loaded l l1) (h : WalkOK l1 live t r) : WalkOK l live t r :=
  ⟨h1.trans h.loaded, h.times, h.res⟩

theorem mono_split {A R B : List Msg}
    (h : (A ++ R ++ B).Pairwise (fun a b => a.time ≤ b.time)) :
    R.Pairwise (fun a b => a.time ≤ b.time) ∧ (∀ a ∈ A, ∀ r ∈ R, a.time ≤ r.time) ∧
    (∀ r ∈ R, ∀ b ∈ B, r.time ≤ b.time) ∧ (∀ a ∈ A, ∀ b ∈ B, a.time ≤ b.time) := by
  rw [List.pairwise_append] at h
  obtain ⟨h1, _, h3⟩ := h
  rw [List.pairwise_append] at h1
  obtain ⟨_, h5, h6⟩ := h1
  refine ⟨h5, h6, ?_, ?_⟩
  · intro r hr b hb; exact h3 r (List.mem_append.mpr (Or.inr hr)) b hb
  · intro a ha b hb; exact h3 a (List.mem_append.mpr (Or.inl ha)) b hb

theorem pairwise_le_getLast {R : List Msg} (h : R.Pairwise (fun a b => a.time ≤ b.time))
    {la : Msg} (hl : R.getLast? = some la) : ∀ m ∈ R, m.time ≤ la.time := by
  intro m hm
  obtain ⟨hn, hlast⟩ := getLast?_eq_getElem hl
  obtain ⟨k, hk, rfl⟩ := List.getElem_of_mem hm
  by_cases hc : k = R.length - 1
  · subst hc; rw [hlast]; exact Int.le_refl _
  · have := List.pairwise_iff_getElem.mp h k (R.length - 1) hk hn (by omega)
    rw [hlast] at this; exact this

theorem find_split_hit {A R B : List Msg} {p : Msg → Bool} {m : Msg}
    (hA : ∀ a ∈ A, p a = false) (hR : R.find? p = some m) : (A ++ R ++ B).find? p = some m := by
  rw [List.find?_append, List.find?_append]
  have : A.find? p = none := by
    rw [List.find?_eq_none]; intro a ha; simp [hA a ha]
  rw [this, hR]; rfl

theorem find_split_miss {A R B : List Msg} {p : Msg → Bool}
    (hA : ∀ a ∈ A, p a = false) (hR : ∀ a ∈ R, p a = false) :
    (A ++ R ++ B).find? p = B.find? p := by
  rw [List.find?_append, List.find?_append]
  have h1 : A.find? p = none := by
    rw [List.find?_eq_none]; intro a ha; simp [hA a ha]
  have h2 : R.find? p = none := by
    rw [List.find?_eq_none]; intro a ha; simp [hR a ha]
  rw [h1, h2]; rfl

/-- `FirstAtBase` is a property of the shape. -/
def FirstAtBaseSh (sh : Shape) : Prop := ∀ br ∈ sh, ∀ m, br.2.head? = some m → m.off = br.1

theorem FirstAtBase.toShape {l : Log} (h : FirstAtBase l) : FirstAtBaseSh (shape l.segs) := by
  intro br hbr m hm
  unfold shape at hbr
  rw [List.mem_map] at hbr
  obtain ⟨s, hs, rfl⟩ := hbr
  exact h s hs m hm

theorem readerGetSpec_oldest_nil (c : RCtx) : readerGetSpec c [] offsetOldest = .ierr .empty := rfl

theorem readerGetSpec_oldest_cons (c : RCtx) (f : Msg) (rest : List Msg) :
    readerGetSpec c (f :: rest) offsetOldest = .ok f := by
  simp [readerGetSpec, List.getLast?_cons]

/-- One segment of the walk; `ih` is the walk over the older segments. -/
theorem getByTime_step (t : Int) (sh : Shape) (hmono : Spec.Monotone (absShape sh))
    (hfab : FirstAtBaseSh sh) (i : Nat)
    (ih : ∀ j, j + 1 = i → ∀ l1 : Log, Inv l1 → TimesInv l1 → l1.opts.params.times = true →
      shape l1.segs = sh → (∀ m ∈ flat (sh.drop (j + 1)), t ≤ m.time) →
      WalkOK l1 (flat sh) t (Log.getByTime.go t sh.length l1 (j + 1)))
    (l : Log) (hinv : Inv l) (ht : TimesInv l) (hp : l.opts.params.times = true)
    (hshl : shape l.segs = sh) (hi : i < sh.length)
    (hQ : ∀ m ∈ flat (sh.drop (i + 1)), t ≤ m.time) :
    WalkOK l (flat sh) t (Log.getByTime.go t sh.length l (i + 1)) := by
  subst hshl
  have hshok : ShapeOK (shape l.segs) := hinv.shape
  have hlen : (shape l.segs).length = l.segs.length := shape_length l.segs
  have hmonoL : Spec.Monotone (abs l) := hmono
  obtain ⟨l1, s', its, c, hw, hb, hv, hr, hit, hc, hinv1, hsh1, hopts1, hnext1, htime1, hlen1⟩ :=
    withIndex_spec l i hinv (by omega)
  obtain ⟨ht1, htf⟩ := withIndex_times l i ht hp hmonoL hw
  have hl1 : Loaded l l1 := ⟨hinv1, hsh1, hopts1, hnext1, htime1⟩
  have hp1 : l1.opts.params.times = true := by rw [hopts1]; exact hp
  have hmono1 : Spec.Monotone (abs l1) := by rw [hl1.abs]; exact hmonoL
  have hsi := shape_getElem l.segs i (by omega)
  have hrecs : s'.recs = ((shape l.segs)[i]).2 := by rw [hsi, hr]
  have hbase : s'.base = ((shape l.segs)[i]).1 := by rw [hsi, hb]
  have hlive : (absShape (shape l.segs)).live = flat (shape l.segs) := rfl
  obtain ⟨hpw, hnn⟩ := hmono
  rw [hlive] at hpw hnn
  have hsplit := flat_split (shape l.segs) i hi
  rw [← hrecs] at hsplit
  have hpw' := hpw
  rw [hsplit] at hpw'
  obtain ⟨hRs, hAR, hRB, hAB⟩ := mono_split hpw'
  have hoffsorted : s'.recs.Pairwise (fun a b => a.off < b.off) := by
    rw [hrecs]; exact hshok.sorted _ (List.getElem_mem hi)
  have hA0 : i = 0 → ∀ a ∈ flat ((shape l.segs).take i), decide (t ≤ a.time) = false := by
    intro h0 a ha
    rw [h0, List.take_zero, flat_nil] at ha
    cases ha
  -- the invariant for the older segments, once every record here is at or after `t`
  have hQdown : (∀ m ∈ s'.recs, t ≤ m.time) → ∀ j, j + 1 = i →
      ∀ m ∈ flat ((shape l.segs).drop (j + 1)), t ≤ m.time := by
    intro hall j hj m hm
    subst hj
    rw [flat_drop_cons _ _ hi, ← hrecs] at hm
    rcases List.mem_append.mp hm with h | h
    · exact hall m h
    · exact hQ m h
  have recurse : (∀ m ∈ s'.recs, t ≤ m.time) → i ≠ 0 →
      WalkOK l (flat (shape l.segs)) t (Log.getByTime.go t (shape l.segs).length l1 i) := by
    intro hall hi0
    obtain ⟨j, hj⟩ : ∃ j, j + 1 = i := ⟨i - 1, by omega⟩
    have := ih j hj l1 hinv1 ht1 hp1 hsh1 (hQdown hall j hj)
    rw [hj] at this
    exact WalkOK.trans hl1 this
  rw [Log.getByTime.go.eq_2, hw]
  simp only
  rw [readerGetByTime_spec s' its t hit htf hRs]
  unfold readerGetByTimeSpec
  cases hR : s'.recs with
  | nil =>
    simp only [List.head?_nil]
    have hlast : ¬ i + 1 < (shape l.segs).length := fun h =>
      hshok.nonempty_idx i h (by rw [← hrecs]; exact hR)
    have hB : flat ((shape l.segs).drop (i + 1)) = [] := flat_drop_len _ _ (by omega)
    by_cases hi0 : i = 0
    · simp only [hi0, if_true]
      refine ⟨hl1, ht1, ?_⟩
      have hflat : flat (shape l.segs) = [] := by
        rw [hsplit, hR, hB, hi0, List.take_zero, flat_nil]; rfl
      unfold TimeRes
      rw [hflat]
      exact Or.inr ⟨rfl, rfl⟩
    · simp only [hi0, if_false]
      apply recurse _ hi0
      intro m hm
      rw [hR] at hm
      cases hm
  | cons f rest =>
    obtain ⟨la, hla⟩ : ∃ la, (f :: rest).getLast? = some la := ⟨_, List.getLast?_cons⟩
    simp only [List.head?_cons, hla]
    have hfmem : f ∈ s'.recs := by rw [hR]; simp
    have hlamem : la ∈ s'.recs := by rw [hR]; exact List.mem_of_getLast? hla
    have hfR : ∀ m ∈ s'.recs, f.time ≤ m.time := by
      intro m hm
      rw [hR] at hm hRs
      rcases List.mem_cons.mp hm with rfl | h
      · exact Int.le_refl _
      · exact (List.pairwise_cons.mp hRs).1 m h
    have hlaR : ∀ m ∈ s'.recs, m.time ≤ la.time := pairwise_le_getLast hRs (by rw [hR]; exact hla)
    by_cases c1 : t < f.time
    · -- before the first record: the older segment, or the first message of the log
      simp only [c1, if_true]
      by_cases hi0 : i = 0
      · simp only [hi0, if_true]
        rw [readerGet_spec c s' its offsetOldest hit hoffsorted, hR, readerGetSpec_oldest_cons]
        simp only [ROut.toOut]
        refine ⟨hl1, ht1, ?_⟩
        unfold TimeRes
        have hfind : (flat (shape l.segs)).find? (fun m => decide (t ≤ m.time)) = some f := by
          rw [hsplit, hR]
          apply find_split_hit (hA0 hi0)
          have : t ≤ f.time := by omega
          simp [this]
        rw [hfind]
      · simp only [hi0, if_false]
        apply recurse _ hi0
        intro m hm
        have := hfR m hm
        omega
    · simp only [c1, if_false]
      by_cases c2 : la.time < t
      · -- after the last record: the first message of the next segment
        simp only [c2, if_true]
        have hmissR : ∀ a ∈ s'.recs, decide (t ≤ a.time) = false := by
          intro a ha
          have := hlaR a ha
          simp only [decide_eq_false_iff_not]; omega
        have hmissA : ∀ a ∈ flat ((shape l.segs).take i), decide (t ≤ a.time) = false := by
          intro a ha
          have := hAR a ha la hlamem
          simp only [decide_eq_false_iff_not]; omega
        have hfind : (flat (shape l.segs)).find? (fun m => decide (t ≤ m.time)) =
            (flat ((shape l.segs).drop (i + 1))).find? (fun m => decide (t ≤ m.time)) := by
          rw [hsplit]; exact find_split_miss hmissA hmissR
        by_cases hnx : i + 1 < (shape l.segs).length
        · simp only [hnx, if_true]
          obtain ⟨l2, s2, its2, c2', hw2, hb2, hv2, hr2, hit2, hc2, hinv2, hsh2, hopts2, hnext2,
            htime2, hlen2⟩ := withIndex_spec l1 (i + 1) hinv1 (by omega)
          obtain ⟨ht2, _⟩ := withIndex_times l1 (i + 1) ht1 hp1 hmono1 hw2
          have hl2 : Loaded l1 l2 := ⟨hinv2, hsh2, hopts2, hnext2, htime2⟩
          rw [hw2]
          simp only
          have hs2 : ((shape l.segs)[i + 1]'hnx) = (s2.base, s2.recs) := by
            have := shape_getElem l1.segs (i + 1) (by omega)
            simp only [hsh1] at this
            rw [this, hb2, hr2]
          have hrecs2 : s2.recs = ((shape l.segs)[i + 1]'hnx).2 := by rw [hs2]
          have hoffsorted2 : s2.recs.Pairwise (fun a b => a.off < b.off) := by
            rw [hrecs2]; exact hshok.sorted _ (List.getElem_mem hnx)
          rw [readerGet_spec c2' s2 its2 offsetOldest hit2 hoffsorted2]
          cases hR2 : s2.recs with
          | nil =>
            rw [readerGetSpec_oldest_nil]
            simp only
            refine ⟨hl1.trans hl2, ht2, ?_⟩
            have hB : flat ((shape l.segs).drop (i + 1)) = [] := by
              rw [flat_drop_cons _ _ hnx, ← hrecs2, hR2]
              have : ¬ i + 1 + 1 < (shape l.segs).length := fun h =>
                hshok.nonempty_idx (i + 1) h (by rw [← hrecs2]; exact hR2)
              rw [flat_drop_len _ _ (by omega)]
              rfl
            unfold TimeRes
            rw [hfind, hB]
            exact Or.inl rfl
          | cons f2 rest2 =>
            rw [readerGetSpec_oldest_cons]
            simp only [ROut.toOut]
            refine ⟨hl1.trans hl2, ht2, ?_⟩
            have hf2 : t ≤ f2.time :=
              hQ f2 (by rw [flat_drop_cons _ _ hnx, ← hrecs2, hR2]; simp)
            unfold TimeRes
            rw [hfind, flat_drop_cons _ _ hnx, ← hrecs2, hR2]
            simp [hf2]
        · simp only [hnx, if_false]
          refine ⟨hl1, ht1, ?_⟩
          unfold TimeRes
          rw [hfind, flat_drop_len _ _ (by omega)]
          exact Or.inl rfl
      · simp only [c2, if_false]
        by_cases c3 : t ≤ f.time
        · -- a hit on the first record: an equal timestamp may end the previous segment
          have hfd : (f :: rest).find? (fun m => decide (t ≤ m.time)) = some f := by
            simp [c3]
          rw [hfd]
          simp only
          have hfb : f.off = s'.base := by
            rw [hbase]
            exact hfab _ (List.getElem_mem hi) f (by rw [← hrecs, hR]; rfl)
          by_cases hi0 : 0 < i
          · have hcond : 0 < i ∧ f.off = s'.base := ⟨hi0, hfb⟩
            simp only [hcond, and_self, if_true]
            apply recurse _ (by omega)
            intro m hm
            have := hfR m hm
            omega
          · have hcond : ¬ (0 < i ∧ f.off = s'.base) := fun h => hi0 h.1
            simp only [hcond, if_false]
            refine ⟨hl1, ht1, ?_⟩
            unfold TimeRes
            have hfind : (flat (shape l.segs)).find? (fun m => decide (t ≤ m.time)) = some f := by
              rw [hsplit, hR]
              exact find_split_hit (hA0 (by omega)) hfd
            rw [hfind]
        · -- a hit inside the segment: everything before it is older
          obtain ⟨m, hfm⟩ : ∃ m, (f :: rest).find? (fun m => decide (t ≤ m.time)) = some m := by
            cases hfd : (f :: rest).find? (fun m => decide (t ≤ m.time)) with
            | some m => exact ⟨m, rfl⟩
            | none =>
              exfalso
              have := List.find?_eq_none.mp hfd la (by rw [← hR]; exact hlamem)
              simp only [decide_eq_true_eq] at this
              omega
          rw [hfm]
          simp only
          have hmrest : m ∈ rest := by
            have : decide (t ≤ f.time) = false := by simp only [decide_eq_false_iff_not]; exact c3
            simp only [List.find?_cons, this] at hfm
            exact List.mem_of_find?_eq_some hfm
          have hmne : m.off ≠ s'.base := by
            have h1 : f.off < m.off := by
              rw [hR] at hoffsorted
              exact (List.pairwise_cons.mp hoffsorted).1 m hmrest
            have h2 : s'.base ≤ f.off := by
              rw [hbase]
              exact hshok.lower _ (List.getElem_mem hi) f (by rw [← hrecs]; exact hfmem)
            omega
          have hcond : ¬ (0 < i ∧ m.off = s'.base) := fun h => hmne h.2
          simp only [hcond, if_false]
          refine ⟨hl1, ht1, ?_⟩
          unfold TimeRes
          have hmissA : ∀ a ∈ flat ((shape l.segs).take i), decide (t ≤ a.time) = false := by
            intro a ha
            have := hAR a ha f hfmem
            simp only [decide_eq_false_iff_not]; omega
          rw [hsplit, hR, find_split_hit hmissA hfm]

/-- The newest-to-oldest walk from segment `i`, when every message of the newer segments
is at or after `t`. -/
theorem getByTime_walk (t : Int) (sh : Shape) (hmono : Spec.Monotone (absShape sh))
    (hfab : FirstAtBaseSh sh) : ∀ (i : Nat) (l : Log), Inv l → TimesInv l →
    l.opts.params.times = true → shape l.segs = sh → i < sh.length →
    (∀ m ∈ flat (sh.drop (i + 1)), t ≤ m.time) →
    WalkOK l (flat sh) t (Log.getByTime.go t sh.length l (i + 1)) := by
  intro i
  induction i with
  | zero =>
    intro l hinv ht hp hshl hi hQ
    exact getByTime_step t sh hmono hfab 0 (by intro j hj; omega) l hinv ht hp hshl hi hQ
  | succ k ihk =>
    intro l hinv ht hp hshl hi hQ
    refine getByTime_step t sh hmono hfab (k + 1) ?_ l hinv ht hp hshl hi hQ
    intro j hj l1 hinv1 ht1 hp1 hsh1 hQ1
    have : j = k := by omega
    subst this
    exact ihk l1 hinv1 ht1 hp1 hsh1 (by omega) hQ1

theorem getByTime_all (l : Log) (hinv : Inv l) (ht : TimesInv l) (hm : Spec.Monotone (abs l))
    (hfab : FirstAtBase l) (hp : l.opts.params.times = true) (t : Int) :
    WalkOK l (abs l).live t (Log.getByTime.go t l.segs.length l l.segs.length) := by
  have hlen := shape_length l.segs
  have hpos : 0 < (shape l.segs).length := List.length_pos_iff.mpr hinv.shape.ne
  obtain ⟨k, hk⟩ : ∃ k, l.segs.length = k + 1 := ⟨l.segs.length - 1, by omega⟩
  have := getByTime_walk t (shape l.segs) hm hfab.toShape k l hinv ht hp rfl (by omega)
    (by intro m hm'
        rw [flat_drop_len _ _ (by omega)] at hm'
        cases hm')
  rw [hlen, ← hk] at this
  exact this

/-- **C10 refinement (GetByTime)**: the first live message whose time is not before `t`;
`ErrNotFound` if there is none (`ErrInvalidOffset` on an empty log); `ErrNoIndex` without
the time index. -/
theorem getByTime_ok (l : Log) (hinv : Inv l) (ht : TimesInv l) (hm : Spec.Monotone (abs l))
    (hfab : FirstAtBase l) (t : Int) :
    Spec.GetByTimeOK l.opts.params.times (abs l) t (l.getByTime t).2 := by
  unfold Spec.GetByTimeOK Log.getByTime
  by_cases hp : l.opts.params.times = true
  · simp only [hp, not_true_eq_false, if_false]
    exact (getByTime_all l hinv ht hm hfab hp t).res
  · simp [hp]

/-- `GetByTime` only loads indexes. -/
theorem getByTime_loaded (l : Log) (hinv : Inv l) (ht : TimesInv l) (hm : Spec.Monotone (abs l))
    (hfab : FirstAtBase l) (t : Int) : Loaded l (l.getByTime t).1 := by
  unfold Log.getByTime
  by_cases hp : l.opts.params.times = true
  · simp only [hp, not_true_eq_false, if_false]
    exact (getByTime_all l hinv ht hm hfab hp t).loaded
  · rw [if_pos hp]
    exact Loaded.refl hinv

/-- The loads of `GetByTime` keep `TimesInv`. -/
theorem getByTime_timesInv (l : Log) (hinv : Inv l) (ht : TimesInv l) (hm : Spec.Monotone (abs l))
    (hfab : FirstAtBase l) (t : Int) : TimesInv (l.getByTime t).1 := by
  unfold Log.getByTime
  by_cases hp : l.opts.params.times = true
  · simp only [hp, not_true_eq_false, if_false]
    exact (getByTime_all l hinv ht hm hfab hp t).times
  · rw [if_pos hp]
    exact ht

end Klev

#print axioms Klev.derive_timesFor
#print axioms Klev.withIndex_times
#print axioms Klev.readerGetByTime_spec
#print axioms Klev.getByTime_ok
#print axioms Klev.getByTime_loaded
#print axioms Klev.getByTime_timesInv
