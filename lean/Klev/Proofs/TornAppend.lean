/-
A crash part-way through an append, on the bytes (`Klev/SegBytes.lean`).

`Publish` appends the encoded records to the head log. A crash at any step — including
after any number of bytes of a record have reached the file — leaves a log that `Recover`
reopens consistently:

 1. a strict prefix of an encoded record at the end of a file never parses as a record
    (`torn_record_class`, `torn_record_not_parsed`): no bytes is the end of the file, fewer
    than 28 is a short header, and from 28 bytes on the header is the record's own, so the
    body it announces is longer than what is there;
 2. `Recover` of a head log cut anywhere inside the record being appended leaves exactly the
    records written before it, whatever the index file holds (`torn_append_recovers`); with
    the whole record in the file it leaves that record too (`whole_append_recovers`);
 3. the recovered files pass `Check` (`torn_append_check`);
 4. recovering them again changes nothing (`recover_idempotent_on_result`);
 5. a batch cut at any byte recovers to the old records and a prefix of the batch
    (`torn_batch_recovers`, general form; `torn_batch_recovers_at`, the corollary form).
-/
import Klev.Proofs.RecoverCheck
namespace Klev

/-! ### 1. a torn record never parses -/

/-- A V2 header that announces more bytes than the file holds is `shortData`. -/
theorem decV2_shortData (b : List UInt8) (pos k vl : Nat)
    (hlen : (slice b pos 28).length = 28)
    (hk : i32 (unbe (((slice b pos 28).drop 20).take 4)) = (k : Int))
    (hv : i32 (unbe (((slice b pos 28).drop 24).take 4)) = (vl : Int))
    (hmax : k + vl ≤ maxBody) (hshort : b.length < pos + 28 + (k + vl + 8)) :
    decV2 b pos = .bad .shortData := by
  have hl := slice_length b (pos + 28) (k + vl + 8)
  have hd : (slice b (pos + 28) (k + vl + 8)).length < k + vl + 8 := by omega
  have hneg : ¬ ((k : Int) < 0 ∨ (vl : Int) < 0) := by omega
  have hmx : ¬ ((k : Int) + (vl : Int) > (maxBody : Int)) := by omega
  unfold decV2
  simp only [hlen, hk, hv, Int.toNat_natCast]
  rw [if_neg (by decide), if_neg (by decide), if_neg hneg, if_neg hmx, if_pos hd]

theorem decV1_shortData (b : List UInt8) (pos k vl : Nat)
    (hlen : (slice b pos 28).length = 28)
    (hk : i32 (unbe (((slice b pos 28).drop 16).take 4)) = (k : Int))
    (hv : i32 (unbe (((slice b pos 28).drop 20).take 4)) = (vl : Int))
    (hmax : k + vl ≤ maxBody) (hshort : b.length < pos + 28 + (k + vl)) :
    decV1 b pos = .bad .shortData := by
  have hl := slice_length b (pos + 28) (k + vl)
  have hl28 := slice_length b pos 28
  have hd : (slice b (pos + 28) (k + vl)).length < k + vl := by omega
  have hneg : ¬ ((k : Int) < 0 ∨ (vl : Int) < 0) := by omega
  have hmx : ¬ ((k : Int) + (vl : Int) > (maxBody : Int)) := by omega
  unfold decV1
  simp only [hlen, hk, hv, Int.toNat_natCast]
  rw [if_neg (by decide), if_neg (by decide), if_neg hneg, if_neg hmx, if_pos hd]


/-- The header slice of a file that ends in the first `j ≥ 28` bytes of a block `x`. -/
theorem slice_hdr_take (pre x : List UInt8) (j : Nat) (h28 : 28 ≤ j) :
    slice (pre ++ x.take j) pre.length 28 = x.take 28 := by
  unfold slice
  rw [List.drop_left, List.take_take, Nat.min_eq_left h28]

theorem length_pre_take (pre x : List UInt8) (j : Nat) (hj : j ≤ x.length) :
    (pre ++ x.take j).length = pre.length + j := by
  rw [List.length_append, List.length_take, Nat.min_eq_left hj]

theorem torn_encV2 (pre : List UInt8) (m : Msg) (h : m.Encodable) (j : Nat) (h28 : 28 ≤ j)
    (hj : j < (encV2 m).length) :
    decV2 (pre ++ (encV2 m).take j) pre.length = .bad .shortData := by
  obtain ⟨_, _, _, _, hb⟩ := h
  have hb' := hb
  rw [maxBody_eq] at hb'
  have hlen := encV2_length m
  have hE : encV2 m = crcBytes (v2Body m) ++ (be 8 (u64 m.off) ++ be 8 (u64 m.time) ++
      be 4 m.key.length ++ be 4 m.val.length ++ (m.key ++ m.val ++ trailer)) := by
    simp [encV2, v2Body]
  obtain ⟨_, _, _, f4, f5, _, _, f8⟩ := fields5' (crcBytes (v2Body m)) (be 8 (u64 m.off))
    (be 8 (u64 m.time)) (be 4 m.key.length) (be 4 m.val.length) (m.key ++ m.val ++ trailer)
    (crcBytes_length _) (be_length _ _) (be_length _ _) (be_length _ _) (be_length _ _)
  rw [← hE] at f4 f5 f8
  have hh := slice_hdr_take pre (encV2 m) j h28
  have hL := length_pre_take pre (encV2 m) j (by omega)
  apply decV2_shortData _ _ m.key.length m.val.length
  · rw [hh, f8]
  · rw [hh, f4]; exact i32_field _ (by unfold two31; omega)
  · rw [hh, f5]; exact i32_field _ (by unfold two31; omega)
  · exact hb
  · rw [hL]; omega

theorem torn_encV1 (pre : List UInt8) (m : Msg) (h : m.Encodable) (j : Nat) (h28 : 28 ≤ j)
    (hj : j < (encV1 m).length) :
    decV1 (pre ++ (encV1 m).take j) pre.length = .bad .shortData := by
  obtain ⟨_, _, _, _, hb⟩ := h
  have hb' := hb
  rw [maxBody_eq] at hb'
  have hlen := encV1_length m
  have hE : encV1 m = be 8 (u64 m.off) ++ be 8 (u64 m.time) ++ be 4 m.key.length ++
      be 4 m.val.length ++ crcBytes (m.key ++ m.val) ++ (m.key ++ m.val) := by
    simp [encV1]
  obtain ⟨_, _, f3, f4, _, _, f7⟩ := fields5 (be 8 (u64 m.off)) (be 8 (u64 m.time))
    (be 4 m.key.length) (be 4 m.val.length) (crcBytes (m.key ++ m.val)) (m.key ++ m.val)
    (be_length _ _) (be_length _ _) (be_length _ _) (be_length _ _) (crcBytes_length _)
  rw [← hE] at f3 f4 f7
  have hh := slice_hdr_take pre (encV1 m) j h28
  have hL := length_pre_take pre (encV1 m) j (by omega)
  apply decV1_shortData _ _ m.key.length m.val.length
  · rw [hh, f7]
  · rw [hh, f3]; exact i32_field _ (by unfold two31; omega)
  · rw [hh, f4]; exact i32_field _ (by unfold two31; omega)
  · exact hb
  · rw [hL]; omega

/-- What the reader says at the start of a record of which only the first `j` bytes reached
the file: nothing at all is the end of the file, fewer than 28 bytes is a short header, and
from 28 bytes on the header is the record's own, so the body it announces is longer than
what is there. -/
theorem torn_record_class (v : Ver) (pre : List UInt8) (m : Msg) (h : m.Encodable) (j : Nat)
    (hj : j < (enc v m).length) :
    dec v (pre ++ (enc v m).take j) pre.length =
      if j = 0 then .eof else if j < 28 then .bad .shortHeader else .bad .shortData := by
  have hL := length_pre_take pre (enc v m) j (by omega)
  by_cases h0 : j = 0
  · rw [if_pos h0]
    exact (dec_eof_iff v _ _).mpr (by omega)
  · rw [if_neg h0]
    by_cases h28 : j < 28
    · rw [if_pos h28]
      exact dec_shortHeader v _ _ (by omega) (by omega)
    · rw [if_neg h28]
      cases v
      · exact torn_encV1 pre m h j (by omega) hj
      · exact torn_encV2 pre m h j (by omega) hj

theorem torn_record_not_parsed (v : Ver) (pre : List UInt8) (m : Msg) (h : m.Encodable) (j : Nat)
    (hj : j < (enc v m).length) :
    ∀ m' n, dec v (pre ++ (enc v m).take j) pre.length ≠ .ok m' n := by
  intro m' n hd
  rw [torn_record_class v pre m h j hj] at hd
  split at hd
  · cases hd
  · split at hd <;> cases hd


/-! ### 2. Recover of a head log cut inside the record being appended -/

theorem torn_append_recovers (p : Params) (base : Int) (ms : List Msg) (m : Msg)
    (idx : Option (List UInt8)) (hms : ∀ x ∈ ms, x.Encodable) (hm : m.Encodable) (j : Nat)
    (hj : j < (enc .v2 m).length) :
    Seg.recover p ⟨base, render .v2 ms ++ (enc .v2 m).take j, idx⟩ =
      .ok ⟨base, render .v2 ms, recoveredIdx p base (derive p .v2 ms) idx⟩ :=
  recover_eq p base ms _ idx hms (torn_record_not_parsed .v2 (render .v2 ms) m hm j hj)

theorem render_snoc (v : Ver) (ms : List Msg) (m : Msg) :
    render v (ms ++ [m]) = render v ms ++ enc v m := by
  rw [render_append, encAll_cons]
  simp [encAll]

theorem encodable_snoc {ms : List Msg} {m : Msg} (hms : ∀ x ∈ ms, x.Encodable)
    (hm : m.Encodable) : ∀ x ∈ ms ++ [m], x.Encodable := by
  intro x hx
  rcases List.mem_append.mp hx with hx | hx
  · exact hms x hx
  · rw [List.mem_singleton] at hx; rw [hx]; exact hm

theorem whole_append_recovers (p : Params) (base : Int) (ms : List Msg) (m : Msg)
    (idx : Option (List UInt8)) (hms : ∀ x ∈ ms, x.Encodable) (hm : m.Encodable) :
    Seg.recover p ⟨base, render .v2 ms ++ enc .v2 m, idx⟩ =
      .ok ⟨base, render .v2 (ms ++ [m]),
        recoveredIdx p base (derive p .v2 (ms ++ [m])) idx⟩ := by
  have := recover_eq p base (ms ++ [m]) [] idx (encodable_snoc hms hm) (hno_nil _)
  rw [List.append_nil] at this
  rw [← render_snoc]
  exact this

/-- The same with the cut written as `take j` at `j` = the whole record. -/
theorem whole_append_recovers_take (p : Params) (base : Int) (ms : List Msg) (m : Msg)
    (idx : Option (List UInt8)) (hms : ∀ x ∈ ms, x.Encodable) (hm : m.Encodable) (j : Nat)
    (hj : j = (enc .v2 m).length) :
    Seg.recover p ⟨base, render .v2 ms ++ (enc .v2 m).take j, idx⟩ =
      .ok ⟨base, render .v2 (ms ++ [m]),
        recoveredIdx p base (derive p .v2 (ms ++ [m])) idx⟩ := by
  rw [hj, List.take_length]
  exact whole_append_recovers p base ms m idx hms hm

/-- Every cut `j ≤` the record's length: the log afterwards holds the old records, plus the
new one exactly when all of it reached the file. -/
theorem append_cut_recovers (p : Params) (base : Int) (ms : List Msg) (m : Msg)
    (idx : Option (List UInt8)) (hms : ∀ x ∈ ms, x.Encodable) (hm : m.Encodable) (j : Nat)
    (hj : j ≤ (enc .v2 m).length) :
    Seg.recover p ⟨base, render .v2 ms ++ (enc .v2 m).take j, idx⟩ =
      let ms' := if j = (enc .v2 m).length then ms ++ [m] else ms
      .ok ⟨base, render .v2 ms', recoveredIdx p base (derive p .v2 ms') idx⟩ := by
  by_cases h : j = (enc .v2 m).length
  · simp only [if_pos h]
    exact whole_append_recovers_take p base ms m idx hms hm j h
  · simp only [if_neg h]
    exact torn_append_recovers p base ms m idx hms hm j (by omega)

/-! ### 3. the recovered files pass Check -/

theorem torn_append_check (p : Params) (base : Int) (ms : List Msg) (m : Msg)
    (idx : Option (List UInt8)) (hms : ∀ x ∈ ms, x.Encodable) (hm : m.Encodable) (j : Nat)
    (hj : j < (enc .v2 m).length) (hsize : (render .v2 ms).length < two63) (hbase : 0 ≤ base)
    (hfirst : ∀ x ∈ ms.head?, x.off = base) :
    ∀ f', Seg.recover p ⟨base, render .v2 ms ++ (enc .v2 m).take j, idx⟩ = .ok f' →
      Seg.check p f' = .ok () :=
  check_after_recover p base ms _ idx hms (torn_record_not_parsed .v2 (render .v2 ms) m hm j hj)
    hsize hbase hfirst

theorem whole_append_check (p : Params) (base : Int) (ms : List Msg) (m : Msg)
    (idx : Option (List UInt8)) (hms : ∀ x ∈ ms, x.Encodable) (hm : m.Encodable)
    (hsize : (render .v2 (ms ++ [m])).length < two63) (hbase : 0 ≤ base)
    (hfirst : ∀ x ∈ (ms ++ [m]).head?, x.off = base) :
    ∀ f', Seg.recover p ⟨base, render .v2 ms ++ enc .v2 m, idx⟩ = .ok f' →
      Seg.check p f' = .ok () := by
  have := check_after_recover p base (ms ++ [m]) [] idx (encodable_snoc hms hm) (hno_nil _)
    hsize hbase hfirst
  rwa [List.append_nil, render_snoc] at this

/-! ### 4. recovering again changes nothing -/

theorem recover_idempotent_on_result (p : Params) (base : Int) (ms : List Msg) (m : Msg)
    (idx : Option (List UInt8)) (hms : ∀ x ∈ ms, x.Encodable) (hm : m.Encodable) (j : Nat)
    (hj : j < (enc .v2 m).length) (hsize : (render .v2 ms).length < two63) (hbase : 0 ≤ base)
    (hfirst : ∀ x ∈ ms.head?, x.off = base) :
    Seg.recover p ⟨base, render .v2 ms, recoveredIdx p base (derive p .v2 ms) idx⟩ =
      .ok ⟨base, render .v2 ms, recoveredIdx p base (derive p .v2 ms) idx⟩ :=
  recover_noop_of_check p _
    (torn_append_check p base ms m idx hms hm j hj hsize hbase hfirst _
      (torn_append_recovers p base ms m idx hms hm j hj))

/-- The same, phrased on whatever the first Recover returned. -/
theorem recover_idempotent_on_result' (p : Params) (base : Int) (ms : List Msg) (m : Msg)
    (idx : Option (List UInt8)) (hms : ∀ x ∈ ms, x.Encodable) (hm : m.Encodable) (j : Nat)
    (hj : j < (enc .v2 m).length) (hsize : (render .v2 ms).length < two63) (hbase : 0 ≤ base)
    (hfirst : ∀ x ∈ ms.head?, x.off = base) :
    ∀ f', Seg.recover p ⟨base, render .v2 ms ++ (enc .v2 m).take j, idx⟩ = .ok f' →
      Seg.recover p f' = .ok f' := fun f' hf =>
  recover_noop_of_check p f'
    (torn_append_check p base ms m idx hms hm j hj hsize hbase hfirst f' hf)


/-! ### 5. a batch cut at any byte -/

theorem encAll_nil (v : Ver) : encAll v [] = [] := rfl

theorem encAll_singleton (v : Ver) (m : Msg) : encAll v [m] = enc v m := by
  rw [encAll_cons, encAll_nil, List.append_nil]

/-- The first `c` bytes of a run of records are `k` whole records followed by a strict
prefix (possibly empty) of record `k`, or all of the records. -/
theorem encAll_take_split (v : Ver) (bs : List Msg) : ∀ c, c ≤ (encAll v bs).length →
    ∃ k, k ≤ bs.length ∧
      ((k = bs.length ∧ (encAll v bs).take c = encAll v bs) ∨
       (∃ b j, bs[k]? = some b ∧ j < (enc v b).length ∧
          c = (encAll v (bs.take k)).length + j ∧
          (encAll v bs).take c = encAll v (bs.take k) ++ (enc v b).take j)) := by
  induction bs with
  | nil =>
    intro c _
    exact ⟨0, Nat.le_refl _, .inl ⟨rfl, by rw [encAll_nil, List.take_nil]⟩⟩
  | cons b bs ih =>
    intro c hc
    rw [encAll_cons, List.length_append] at hc
    by_cases hlt : c < (enc v b).length
    · refine ⟨0, Nat.zero_le _, .inr ⟨b, c, rfl, hlt, ?_, ?_⟩⟩
      · rw [List.take_zero, encAll_nil, List.length_nil, Nat.zero_add]
      · rw [List.take_zero, encAll_nil, List.nil_append, encAll_cons,
          List.take_append_of_le_length (by omega)]
    · have hge : (enc v b).length ≤ c := by omega
      obtain ⟨k, hk, hcase⟩ := ih (c - (enc v b).length) (by omega)
      have htake : (encAll v (b :: bs)).take c =
          enc v b ++ (encAll v bs).take (c - (enc v b).length) := by
        rw [encAll_cons, List.take_append, List.take_of_length_le hge]
      refine ⟨k + 1, by rw [List.length_cons]; omega, ?_⟩
      rcases hcase with ⟨hkl, hall⟩ | ⟨b', j, hb', hj, hcj, hsplit⟩
      · exact .inl ⟨by rw [List.length_cons, hkl], by rw [htake, hall, encAll_cons]⟩
      · refine .inr ⟨b', j, by rw [List.getElem?_cons_succ]; exact hb', hj, ?_, ?_⟩
        · rw [List.take_succ_cons, encAll_cons, List.length_append]; omega
        · rw [htake, hsplit, List.take_succ_cons, encAll_cons, List.append_assoc]

theorem encodable_append_take {ms bs : List Msg} (hms : ∀ x ∈ ms, x.Encodable)
    (hbs : ∀ x ∈ bs, x.Encodable) (k : Nat) : ∀ x ∈ ms ++ bs.take k, x.Encodable := by
  intro x hx
  rcases List.mem_append.mp hx with hx | hx
  · exact hms x hx
  · exact hbs x (List.mem_of_mem_take hx)

/-- The corollary form: the file holds the old records, `k` whole records of the batch, and a
strict prefix of record `k` of the batch. -/
theorem torn_batch_recovers_at (p : Params) (base : Int) (ms bs : List Msg)
    (idx : Option (List UInt8)) (hms : ∀ x ∈ ms, x.Encodable) (hbs : ∀ x ∈ bs, x.Encodable)
    (k : Nat) (b : Msg) (hb : bs[k]? = some b) (j : Nat) (hj : j < (enc .v2 b).length) :
    Seg.recover p ⟨base, render .v2 (ms ++ bs.take k) ++ (enc .v2 b).take j, idx⟩ =
      .ok ⟨base, render .v2 (ms ++ bs.take k),
        recoveredIdx p base (derive p .v2 (ms ++ bs.take k)) idx⟩ :=
  torn_append_recovers p base (ms ++ bs.take k) b idx (encodable_append_take hms hbs k)
    (hbs b (List.mem_of_getElem? hb)) j hj

theorem take_render_append (ms : List Msg) (x : List UInt8) (c : Nat) :
    (render .v2 ms ++ x).take ((render .v2 ms).length + c) = render .v2 ms ++ x.take c := by
  rw [List.take_append, List.take_of_length_le (by omega),
    show (render .v2 ms).length + c - (render .v2 ms).length = c by omega]

/-- The general form: the file `render ms ++ encAll bs` cut at any byte `c` of the appended
region recovers to the old records plus a prefix `bs.take k` of the batch, where `k` is the
number of whole batch records within the first `c` appended bytes (the two bounds on `c`
determine `k`). -/
theorem torn_batch_recovers (p : Params) (base : Int) (ms bs : List Msg)
    (idx : Option (List UInt8)) (hms : ∀ x ∈ ms, x.Encodable) (hbs : ∀ x ∈ bs, x.Encodable)
    (c : Nat) (hc : c ≤ (encAll .v2 bs).length) :
    ∃ k, k ≤ bs.length ∧ (encAll .v2 (bs.take k)).length ≤ c ∧
      (k < bs.length → c < (encAll .v2 (bs.take (k + 1))).length) ∧
      Seg.recover p ⟨base, (render .v2 ms ++ encAll .v2 bs).take ((render .v2 ms).length + c),
          idx⟩ =
        .ok ⟨base, render .v2 (ms ++ bs.take k),
          recoveredIdx p base (derive p .v2 (ms ++ bs.take k)) idx⟩ := by
  obtain ⟨k, hk, hcase⟩ := encAll_take_split .v2 bs c hc
  refine ⟨k, hk, ?_⟩
  rw [take_render_append]
  rcases hcase with ⟨hkl, hall⟩ | ⟨b, j, hb, hj, hcj, hsplit⟩
  · refine ⟨?_, fun h => by omega, ?_⟩
    · rw [hkl, List.take_length]
      have := congrArg List.length hall
      rw [List.length_take] at this
      omega
    · have := recover_eq p base (ms ++ bs.take k) [] idx (encodable_append_take hms hbs k)
        (hno_nil _)
      rw [List.append_nil] at this
      rw [hall]
      rw [hkl, List.take_length] at this ⊢
      rw [← render_append]
      exact this
  · refine ⟨by omega, fun _ => ?_, ?_⟩
    · rw [List.take_add_one, hb, Option.toList_some, encAll_append, encAll_singleton,
        List.length_append]
      omega
    · rw [hsplit, ← List.append_assoc, ← render_append]
      exact torn_batch_recovers_at p base ms bs idx hms hbs k b hb j hj


/-! ### the recovered files of a cut batch pass Check, and Recover is then a no-op -/

theorem encAll_take_length_le (v : Ver) (bs : List Msg) (k : Nat) :
    (encAll v (bs.take k)).length ≤ (encAll v bs).length := by
  have h : encAll v bs = encAll v (bs.take k) ++ encAll v (bs.drop k) := by
    rw [← encAll_append, List.take_append_drop]
  rw [h, List.length_append]
  omega

theorem head?_append_take {ms bs : List Msg} (k : Nat) :
    ∀ x ∈ (ms ++ bs.take k).head?, x ∈ (ms ++ bs).head? := by
  intro x hx
  cases ms with
  | cons a ms => exact hx
  | nil =>
    cases bs with
    | nil => rw [List.take_nil] at hx; exact hx
    | cons b bs =>
      cases k with
      | zero => rw [List.take_zero] at hx; cases hx
      | succ k => exact hx

theorem torn_batch_check (p : Params) (base : Int) (ms bs : List Msg)
    (idx : Option (List UInt8)) (hms : ∀ x ∈ ms, x.Encodable) (hbs : ∀ x ∈ bs, x.Encodable)
    (c : Nat) (hc : c ≤ (encAll .v2 bs).length)
    (hsize : (render .v2 (ms ++ bs)).length < two63) (hbase : 0 ≤ base)
    (hfirst : ∀ x ∈ (ms ++ bs).head?, x.off = base) :
    ∀ f', Seg.recover p ⟨base,
        (render .v2 ms ++ encAll .v2 bs).take ((render .v2 ms).length + c), idx⟩ = .ok f' →
      Seg.check p f' = .ok () ∧ Seg.recover p f' = .ok f' := by
  intro f' hf
  obtain ⟨k, _, _, _, hr⟩ := torn_batch_recovers p base ms bs idx hms hbs c hc
  rw [hr] at hf
  have hsz : (render .v2 (ms ++ bs.take k)).length < two63 := by
    have := encAll_take_length_le .v2 bs k
    rw [render_length, encAll_append, List.length_append] at hsize ⊢
    omega
  have hchk : Seg.check p f' = .ok () := by
    have := check_after_recover p base (ms ++ bs.take k) [] idx
      (encodable_append_take hms hbs k) (hno_nil _) hsz hbase
      (fun x hx => hfirst x (head?_append_take k x hx)) f'
    apply this
    rw [recover_eq p base (ms ++ bs.take k) [] idx (encodable_append_take hms hbs k) (hno_nil _)]
    exact hf
  exact ⟨hchk, recover_noop_of_check p f' hchk⟩

end Klev

#print axioms Klev.decV2_shortData
#print axioms Klev.decV1_shortData
#print axioms Klev.torn_record_class
#print axioms Klev.torn_record_not_parsed
#print axioms Klev.torn_append_recovers
#print axioms Klev.whole_append_recovers
#print axioms Klev.whole_append_recovers_take
#print axioms Klev.append_cut_recovers
#print axioms Klev.torn_append_check
#print axioms Klev.whole_append_check
#print axioms Klev.recover_idempotent_on_result
#print axioms Klev.recover_idempotent_on_result'
#print axioms Klev.encAll_take_split
#print axioms Klev.torn_batch_recovers_at
#print axioms Klev.torn_batch_recovers
#print axioms Klev.torn_batch_check
