/-
`FindByCount` and `FindBySize` in closed form, parameterised on what `Stat` returns: generic
loop lemmas (over an arbitrary `step` with an equational hypothesis) from the Hoare rule
`scanLoop_total`, the pure facts relating `Helpers.takeSize` to `Spec.sizePrefix`, and the
theorems against the L0 relations `FindByCountOK`, `FindBySizeOK`.
-/
import Klev.Proofs.HelpersOK
namespace Klev
open Helpers

/-! ### pure facts -/

/-- Past `next` there is no live message. -/
theorem rest_nil_of_ge_next {s : Spec} (hwf : Spec.WF s) {seen rest : List Msg}
    (hF : seen ++ rest = s.live) (hge : ∀ m ∈ rest, s.next ≤ m.off) : rest = [] := by
  apply List.eq_nil_iff_forall_not_mem.mpr
  intro m hm
  have h1 := hge m hm
  have h2 := (hwf.2 m (by rw [← hF]; exact List.mem_append_right _ hm)).2
  omega

theorem offsOf_append (a b : List Msg) : Spec.offsOf (a ++ b) = Spec.offsOf a ++ Spec.offsOf b := by
  unfold Spec.offsOf; exact List.map_append

/-- (a) Below the bound nothing is selected. -/
theorem sizePrefix_lt (est : Msg → Int) (sz : Int) {total : Int} (h : total < sz) :
    ∀ ms : List Msg, Spec.sizePrefix est sz total ms = []
  | [] => rfl
  | m :: ms => by
    rw [Spec.sizePrefix]
    simp only [h, if_true]

theorem sizePrefix_cons_ge (est : Msg → Int) (sz : Int) {total : Int} (h : ¬ total < sz)
    (m : Msg) (ms : List Msg) :
    Spec.sizePrefix est sz total (m :: ms) = m :: Spec.sizePrefix est sz (total - est m) ms := by
  rw [Spec.sizePrefix]
  simp only [h, if_false]

theorem takeSize_nil (est : Msg → Int) (sz total : Int) : takeSize est sz total [] = ([], total) := rfl

theorem takeSize_cons_lt (est : Msg → Int) (sz : Int) {total : Int} (m : Msg) (ms : List Msg)
    (h : total - est m < sz) : takeSize est sz total (m :: ms) = ([m], total - est m) := by
  rw [takeSize]
  simp only [h, if_true]

theorem takeSize_cons_ge (est : Msg → Int) (sz : Int) {total : Int} (m : Msg) (ms : List Msg)
    (h : ¬ total - est m < sz) :
    takeSize est sz total (m :: ms) =
      (m :: (takeSize est sz (total - est m) ms).1, (takeSize est sz (total - est m) ms).2) := by
  rw [takeSize]
  simp only [h, if_false]

/-- (b) One chunk of the `FindBySize` inner loop against the specification. -/
theorem sizePrefix_append (est : Msg → Int) (sz : Int) :
    ∀ (ms rest : List Msg) (total : Int), sz ≤ total →
      Spec.sizePrefix est sz total (ms ++ rest) =
        (takeSize est sz total ms).1 ++ Spec.sizePrefix est sz (takeSize est sz total ms).2 rest
  | [], rest, total, _ => by
    rw [takeSize_nil]; rfl
  | m :: ms, rest, total, hge => by
    rw [List.cons_append, sizePrefix_cons_ge est sz (by omega)]
    by_cases hlt : total - est m < sz
    · rw [takeSize_cons_lt est sz m ms hlt]
      simp only
      rw [sizePrefix_lt est sz hlt, sizePrefix_lt est sz hlt]
      rfl
    · rw [takeSize_cons_ge est sz m ms hlt]
      simp only
      rw [sizePrefix_append est sz ms rest (total - est m) (by omega)]
      rfl

/-! ### generic loop lemmas -/

/-- The `FindByCount` loop: with `toRemove = tr0` it collects the offsets of the first
`tr0.toNat` live messages. `step` is arbitrary up to its defining equation. -/
theorem scanLoop_count (l : Log) (h : Inv l) (next : Int) (hnext : next = (abs l).next) (tr0 : Int)
    (step : List Int × Int → List Msg → (List Int × Int) × Bool)
    (res : Log × Out (List Int × Int))
    (hres : scanLoop next (fun (st : List Int × Int) => decide (st.2 > 0)) step (fuelFor next) l
      offsetOldest ([], tr0) = res)
    (hstep : ∀ acc tr msgs, step (acc, tr) msgs =
        ((acc ++ (msgs.take tr.toNat).map (·.off), tr - ((msgs.take tr.toNat).length : Int)), false)) :
    ∃ l' tr', Loaded l l' ∧ res = (l', .ok (Spec.offsOf ((abs l).live.take tr0.toNat), tr')) := by
  subst hnext
  have hwf := abs_wf l h
  have hnn := abs_next_nonneg l h
  have hall : Spec.fromOff (abs l) offsetOldest = (abs l).live :=
    Spec.fromOff_nonpos hwf (by decide)
  have key : ∃ l' st', scanLoop (abs l).next (fun (st : List Int × Int) => decide (st.2 > 0)) step
      (fuelFor (abs l).next) l offsetOldest ([], tr0) = (l', .ok st') ∧ Loaded l l' ∧
      st'.1 = Spec.offsOf ((abs l).live.take tr0.toNat) := by
    apply scanLoop_total (abs l).next (fun (st : List Int × Int) => decide (st.2 > 0)) step
      (abs l).live
      (fun seen st => st.1 = Spec.offsOf (seen.take tr0.toNat) ∧
        st.2 = tr0 - ((seen.take tr0.toNat).length : Int))
      (fun st => st.1 = Spec.offsOf ((abs l).live.take tr0.toNat))
      ?_ ?_ ?_ (fuelFor (abs l).next) l offsetOldest ([], tr0) [] h
      (by unfold offsetOldest; omega) (by decide)
      (by rw [hall, List.nil_append]) (by simp [Spec.offsOf]) (Int.le_refl _)
      (fuelFor_enough _ (by omega))
    · intro seen ms rest st hF hI hc _
      obtain ⟨acc, tr⟩ := st
      simp only at hI
      obtain ⟨hI1, hI2⟩ := hI
      have htr : tr > 0 := by simpa using hc
      rw [hstep]
      refine ⟨fun _ => ?_, fun hb => absurd hb (by simp)⟩
      simp only
      have hlen : (seen.take tr0.toNat).length = min tr0.toNat seen.length := List.length_take
      have e : tr.toNat = tr0.toNat - seen.length := by omega
      rw [List.take_append, offsOf_append, ← hI1, e]
      refine ⟨rfl, ?_⟩
      rw [List.length_append, hI2]
      generalize (seen.take tr0.toNat).length = a at *
      generalize (ms.take (tr0.toNat - seen.length)).length = b at *
      omega
    · intro seen rest st hF hI hc
      obtain ⟨acc, tr⟩ := st
      simp only at hI hc ⊢
      obtain ⟨hI1, hI2⟩ := hI
      have htr : ¬ tr > 0 := by simpa using hc
      have hlen : (seen.take tr0.toNat).length = min tr0.toNat seen.length := List.length_take
      have e : tr0.toNat - seen.length = 0 := by omega
      rw [← hF, List.take_append, e, List.take_zero, List.append_nil]
      exact hI1
    · intro seen rest st hF hI hge
      have hrest := rest_nil_of_ge_next hwf hF hge
      subst hrest
      rw [List.append_nil] at hF
      rw [← hF]
      exact hI.1
  obtain ⟨l', ⟨acc', tr'⟩, hr, hld, hq⟩ := key
  refine ⟨l', tr', hld, ?_⟩
  simp only at hq
  rw [← hres, hr, hq]

/-- The `FindBySize` loop: it collects the offsets of `sizePrefix est sz S live`. -/
theorem scanLoop_size (l : Log) (h : Inv l) (next : Int) (hnext : next = (abs l).next)
    (est : Msg → Int) (sz S : Int)
    (step : List Int × Int → List Msg → (List Int × Int) × Bool)
    (res : Log × Out (List Int × Int))
    (hres : scanLoop next (fun (st : List Int × Int) => decide (st.2 ≥ sz)) step (fuelFor next) l
      offsetOldest ([], S) = res)
    (hstep : ∀ acc total msgs, step (acc, total) msgs =
        ((acc ++ (takeSize est sz total msgs).1.map (·.off), (takeSize est sz total msgs).2), false)) :
    ∃ l' t', Loaded l l' ∧
      res = (l', .ok (Spec.offsOf (Spec.sizePrefix est sz S (abs l).live), t')) := by
  subst hnext
  have hwf := abs_wf l h
  have hnn := abs_next_nonneg l h
  have hall : Spec.fromOff (abs l) offsetOldest = (abs l).live :=
    Spec.fromOff_nonpos hwf (by decide)
  have key : ∃ l' st', scanLoop (abs l).next (fun (st : List Int × Int) => decide (st.2 ≥ sz)) step
      (fuelFor (abs l).next) l offsetOldest ([], S) = (l', .ok st') ∧ Loaded l l' ∧
      st'.1 = Spec.offsOf (Spec.sizePrefix est sz S (abs l).live) := by
    apply scanLoop_total (abs l).next (fun (st : List Int × Int) => decide (st.2 ≥ sz)) step
      (abs l).live
      (fun seen st => ∃ X, st.1 = Spec.offsOf X ∧
        ∀ rest, Spec.sizePrefix est sz S (seen ++ rest) = X ++ Spec.sizePrefix est sz st.2 rest)
      (fun st => st.1 = Spec.offsOf (Spec.sizePrefix est sz S (abs l).live))
      ?_ ?_ ?_ (fuelFor (abs l).next) l offsetOldest ([], S) [] h
      (by unfold offsetOldest; omega) (by decide)
      (by rw [hall, List.nil_append])
      ⟨[], rfl, fun rest => by simp⟩ (Int.le_refl _)
      (fuelFor_enough _ (by omega))
    · intro seen ms rest st hF hI hc _
      obtain ⟨acc, total⟩ := st
      simp only at hI
      obtain ⟨X, hI1, hI2⟩ := hI
      have hge : total ≥ sz := by simpa using hc
      rw [hstep]
      refine ⟨fun _ => ?_, fun hb => absurd hb (by simp)⟩
      simp only
      refine ⟨X ++ (takeSize est sz total ms).1, ?_, ?_⟩
      · rw [offsOf_append, hI1]; rfl
      · intro rest'
        rw [List.append_assoc seen ms rest', hI2 (ms ++ rest'),
          sizePrefix_append est sz ms rest' total hge, List.append_assoc]
    · intro seen rest st hF hI hc
      obtain ⟨acc, total⟩ := st
      simp only at hI hc ⊢
      obtain ⟨X, hI1, hI2⟩ := hI
      have hlt : total < sz := by
        have : ¬ total ≥ sz := by simpa using hc
        omega
      rw [← hF, hI2 rest, sizePrefix_lt est sz hlt, List.append_nil]
      exact hI1
    · intro seen rest st hF hI hge
      have hrest := rest_nil_of_ge_next hwf hF hge
      subst hrest
      obtain ⟨X, hI1, hI2⟩ := hI
      rw [← hF, hI2 [], hI1]
      have : Spec.sizePrefix est sz st.2 [] = [] := by
        cases st with | mk a b => rfl
      rw [this, List.append_nil]
  obtain ⟨l', ⟨acc', t'⟩, hr, hld, hq⟩ := key
  refine ⟨l', t', hld, ?_⟩
  simp only at hq
  rw [← hres, hr, hq]

/-! ### `FindByCount` -/

/-- `FindByCount` returns the offsets of the first `n − max` live messages. -/
theorem findByCount_of_stat (l : Log) (h : Inv l) (max : Int) (st : Stats)
    (hst : (l.stat).2 = .ok st) (hmsg : st.messages = ((abs l).live.length : Int)) (hld : Loaded l (l.stat).1) :
    ∃ l', Loaded l l' ∧ findByCount l max =
      (l', .ok (Spec.offsOf ((abs l).live.take (((abs l).live.length : Int) - max).toNat))) := by
  have _ := h
  unfold findByCount
  cases hs : l.stat with
  | mk l1 r =>
    rw [hs] at hst hld
    simp only at hst hld
    subst hst
    simp only
    by_cases hle : st.messages ≤ max
    · simp only [hle, if_true]
      refine ⟨l1, hld, ?_⟩
      have : (((abs l).live.length : Int) - max).toNat = 0 := by omega
      rw [this]; rfl
    · simp only [hle, if_false]
      obtain ⟨hno, hld0⟩ := nextOffset_spec l1 hld.inv
      cases hnx : l1.nextOffset with
      | mk l2 r2 =>
        rw [hnx] at hno hld0
        simp only at hno hld0
        subst hno
        simp only
        have hnext : (abs l1).next = (abs l2).next := by rw [hld0.abs]
        generalize hsl : scanLoop _ _ _ _ _ _ _ = res
        obtain ⟨l', tr', hl', hr⟩ := scanLoop_count l2 hld0.inv _ hnext _ _ res hsl
          (fun _ _ _ => rfl)
        subst hr
        simp only
        refine ⟨l', (hld.trans hld0).trans hl', ?_⟩
        rw [hld0.abs, hld.abs, hmsg]

theorem findByCount_ok_of_stat (l : Log) (h : Inv l) (max : Int) (st : Stats)
    (hst : (l.stat).2 = .ok st) (hmsg : st.messages = ((abs l).live.length : Int)) (hld : Loaded l (l.stat).1) :
    Spec.FindByCountOK (abs l) max (findByCount l max).2 ∧ Loaded l (findByCount l max).1 := by
  obtain ⟨l', hl', heq⟩ := findByCount_of_stat l h max st hst hmsg hld
  rw [heq]
  exact ⟨SameSet.rfl' rfl, hl'⟩

/-! ### `FindBySize` -/

/-- `FindBySize` returns the offsets of the shortest prefix whose estimated removal brings the Stat size below `sz`. -/
theorem findBySize_of_stat (l : Log) (h : Inv l) (sz : Int) (st : Stats)
    (hst : (l.stat).2 = .ok st) (hld : Loaded l (l.stat).1) :
    ∃ l', Loaded l l' ∧ findBySize l sz =
      (l', .ok (Spec.offsOf (Spec.sizePrefix (sizeOf l) sz st.size (abs l).live))) := by
  have _ := h
  unfold findBySize
  cases hs : l.stat with
  | mk l1 r =>
    rw [hs] at hst hld
    simp only at hst hld
    subst hst
    simp only
    by_cases hlt : st.size < sz
    · simp only [hlt, if_true]
      refine ⟨l1, hld, ?_⟩
      rw [sizePrefix_lt (sizeOf l) sz hlt]; rfl
    · simp only [hlt, if_false]
      obtain ⟨hno, hld0⟩ := nextOffset_spec l1 hld.inv
      cases hnx : l1.nextOffset with
      | mk l2 r2 =>
        rw [hnx] at hno hld0
        simp only at hno hld0
        subst hno
        simp only
        have hnext : (abs l1).next = (abs l2).next := by rw [hld0.abs]
        generalize hsl : scanLoop _ _ _ _ _ _ _ = res
        obtain ⟨l', t', hl', hr⟩ := scanLoop_size l2 hld0.inv _ hnext (sizeOf l) _ _ _ res hsl
          (fun _ _ _ => rfl)
        subst hr
        simp only
        refine ⟨l', (hld.trans hld0).trans hl', ?_⟩
        rw [hld0.abs, hld.abs]

theorem findBySize_ok_of_stat (l : Log) (h : Inv l) (sz : Int) (st : Stats)
    (hst : (l.stat).2 = .ok st) (hld : Loaded l (l.stat).1) :
    Spec.FindBySizeOK (abs l) (fun m => recSize l.opts.nsv m + l.opts.params.size) st.size sz (findBySize l sz).2 ∧
    Loaded l (findBySize l sz).1 := by
  obtain ⟨l', hl', heq⟩ := findBySize_of_stat l h sz st hst hld
  rw [heq]
  exact ⟨SameSet.rfl' rfl, hl'⟩

end Klev

#print axioms Klev.sizePrefix_append
#print axioms Klev.scanLoop_count
#print axioms Klev.scanLoop_size
#print axioms Klev.findByCount_of_stat
#print axioms Klev.findByCount_ok_of_stat
#print axioms Klev.findBySize_of_stat
#print axioms Klev.findBySize_ok_of_stat
