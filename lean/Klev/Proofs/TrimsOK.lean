/-
The trims (trim_offset.go, trim_count.go, trim_size.go) = `Find*`, then `DeleteMulti`.
`Stat` (Klev/Proofs/StatOK.lean) + the closed forms of the `Find*` loops
(Klev/Proofs/HelpersOK.lean, Klev/Proofs/TrimFind.lean) + `DeleteMulti` over live offsets
(Klev/Proofs/DeleteMultiOK.lean) give the bound each trim establishes.

`MemIdx` is the extra invariant clause `Stat` needs (a segment whose index is in memory has
an index file); it holds in every reachable state but is not yet part of `Inv`.
-/
import Klev.Proofs.StatOK
import Klev.Proofs.TrimFind
import Klev.Proofs.CompactOK
import Klev.Proofs.MemIdxInv
namespace Klev

open Helpers

/-! ### `FindByCount`, `FindBySize` against the L0 relations -/

/-- **FindByCount**: the offsets of the first `n − max` live messages (none when `n ≤ max`). -/
theorem findByCount_ok (l : Log) (h : Inv l) (hmi : MemIdx l) (max : Int) :
    Spec.FindByCountOK (abs l) max (findByCount l max).2 ∧ Loaded l (findByCount l max).1 := by
  obtain ⟨st, hst, hmsg, _, hld, _⟩ := stat_spec l h hmi
  exact findByCount_ok_of_stat l h max st hst hmsg hld

theorem findByCount_eq (l : Log) (h : Inv l) (hmi : MemIdx l) (max : Int) :
    ∃ l', Loaded l l' ∧ findByCount l max =
      (l', .ok (Spec.offsOf ((abs l).live.take (((abs l).live.length : Int) - max).toNat))) := by
  obtain ⟨st, hst, hmsg, _, hld, _⟩ := stat_spec l h hmi
  exact findByCount_of_stat l h max st hst hmsg hld

/-- **FindBySize**: with `st` the result of `Stat` (total size of all segment files), the
offsets of the shortest prefix of the live messages whose estimated removal
(`Size(m)` = record size in `NewSegmentsVersion` + index item size) brings the size below
`sz`; everything if that is impossible, nothing if the size is already below. -/
theorem findBySize_ok (l : Log) (h : Inv l) (hmi : MemIdx l) (sz : Int) :
    ∃ st, (l.stat).2 = .ok st ∧
      st.size = ((l.stat).1.segs.map (segFileSize l.opts.params)).sum ∧
      Spec.FindBySizeOK (abs l) (fun m => recSize l.opts.nsv m + l.opts.params.size) st.size sz
        (findBySize l sz).2 ∧
      Loaded l (findBySize l sz).1 := by
  obtain ⟨st, hst, _, _, hld, _, _, hsize⟩ := stat_spec l h hmi
  obtain ⟨h1, h2⟩ := findBySize_ok_of_stat l h sz st hst hld
  exact ⟨st, hst, hsize, h1, h2⟩

theorem findBySize_eq (l : Log) (h : Inv l) (hmi : MemIdx l) (sz : Int) :
    ∃ st l', (l.stat).2 = .ok st ∧ Loaded l l' ∧ findBySize l sz =
      (l', .ok (Spec.offsOf (Spec.sizePrefix (sizeOf l) sz st.size (abs l).live))) := by
  obtain ⟨st, hst, _, _, hld, _⟩ := stat_spec l h hmi
  obtain ⟨l', h1, h2⟩ := findBySize_of_stat l h sz st hst hld
  exact ⟨st, l', hst, h1, h2⟩

/-! ### removing a prefix -/

/-- In a list with increasing offsets, dropping the messages whose offset is one of a prefix's
offsets drops that prefix. -/
theorem filter_not_prefix_offs (A B : List Msg) (hp : (A ++ B).Pairwise (fun a b => a.off < b.off)) :
    (A ++ B).filter (fun m => !(Spec.offsOf A).contains m.off) = B := by
  obtain ⟨_, _, hcross⟩ := List.pairwise_append.mp hp
  rw [List.filter_append]
  have h1 : A.filter (fun m => !(Spec.offsOf A).contains m.off) = [] := by
    rw [List.filter_eq_nil_iff]
    intro m hm
    simp only [List.contains_eq_mem, Bool.not_eq_true', decide_eq_false_iff_not, Decidable.not_not]
    exact List.mem_map.mpr ⟨m, hm, rfl⟩
  have h2 : B.filter (fun m => !(Spec.offsOf A).contains m.off) = B := by
    rw [List.filter_eq_self]
    intro m hm
    simp only [List.contains_eq_mem, Bool.not_eq_true', decide_eq_false_iff_not]
    intro hc
    obtain ⟨a, ha, hao⟩ := List.mem_map.mp hc
    have := hcross a ha m hm
    omega
  rw [h1, h2, List.nil_append]

theorem filter_prefix_offs (A B : List Msg) (hp : (A ++ B).Pairwise (fun a b => a.off < b.off)) :
    (A ++ B).filter (fun m => (Spec.offsOf A).contains m.off) = A := by
  obtain ⟨_, _, hcross⟩ := List.pairwise_append.mp hp
  rw [List.filter_append]
  have h1 : A.filter (fun m => (Spec.offsOf A).contains m.off) = A := by
    rw [List.filter_eq_self]
    intro m hm
    simp only [List.contains_eq_mem, decide_eq_true_eq]
    exact List.mem_map.mpr ⟨m, hm, rfl⟩
  have h2 : B.filter (fun m => (Spec.offsOf A).contains m.off) = [] := by
    rw [List.filter_eq_nil_iff]
    intro m hm
    simp only [List.contains_eq_mem, decide_eq_true_eq]
    intro hc
    obtain ⟨a, ha, hao⟩ := List.mem_map.mp hc
    have := hcross a ha m hm
    omega
  rw [h1, h2, List.append_nil]

theorem filter_take_offs (L : List Msg) (hp : L.Pairwise (fun a b => a.off < b.off)) (K : Nat) :
    L.filter (fun m => (Spec.offsOf (L.take K)).contains m.off) = L.take K := by
  have := filter_prefix_offs (L.take K) (L.drop K) (by rw [List.take_append_drop]; exact hp)
  rw [List.take_append_drop] at this
  exact this

theorem filter_not_take_offs (L : List Msg) (hp : L.Pairwise (fun a b => a.off < b.off)) (K : Nat) :
    L.filter (fun m => !(Spec.offsOf (L.take K)).contains m.off) = L.drop K := by
  have := filter_not_prefix_offs (L.take K) (L.drop K) (by rw [List.take_append_drop]; exact hp)
  rw [List.take_append_drop] at this
  exact this

theorem take_offs_live (L : List Msg) (K : Nat) : ∀ o ∈ Spec.offsOf (L.take K), ∃ m ∈ L, m.off = o := by
  intro o ho
  obtain ⟨m, hm, hmo⟩ := List.mem_map.mp ho
  exact ⟨m, List.mem_of_mem_take hm, hmo⟩

/-! ### `TrimByOffsetMulti` -/

/-- **TrimByOffsetMulti** on a read-write log, `before ≥ -3` (`OffsetOldest`, `OffsetNewest`, every
real offset): no error; `OffsetOldest` removes nothing; otherwise, with `b` = the next offset for
`OffsetNewest` and `before` itself for a real offset, afterwards no live message has an offset
below `b`, exactly the live messages below `b` were removed (and reported), everything else is
untouched. -/
theorem trimByOffsetMulti_bound (l : Log) (h : Inv l) (hro : l.opts.readonly = false) (before : Int)
    (hb : -4 < before) :
    let r := thenDelete true (findByOffset l before)
    let b := if before = offsetNewest then (abs l).next else before
    Inv r.1 ∧ r.2.err = none ∧ (abs r.1).next = (abs l).next ∧
    (before = offsetOldest → (abs r.1).live = (abs l).live ∧ r.2.msgs = []) ∧
    (before ≠ offsetOldest →
      (abs r.1).live = (abs l).live.filter (fun m => decide (b ≤ m.off)) ∧
      (∀ m ∈ (abs r.1).live, b ≤ m.off) ∧
      (∀ d, d ∈ r.2.msgs ↔ d ∈ (abs l).live ∧ d.off < b) ∧
      r.2.msgs = (abs l).live.filter (fun m => decide (m.off < b))) := by
  intro r b
  obtain ⟨l', hld, heq⟩ := findByOffset_eq l h before hb
  have hwf := abs_wf l h
  by_cases ho : before = offsetOldest
  · simp only [ho, if_true] at heq
    have hr : r = thenDelete true (l', .ok []) := by
      show thenDelete true (findByOffset l before) = _
      rw [ho, heq]
    rw [hr]
    obtain ⟨hi, he, hl, hn, hm, _⟩ := thenDelete_multi_complete l l' hld hro []
      (by intro o ho'; cases ho')
    refine ⟨hi, he, hn, ?_, fun hc => absurd ho hc⟩
    intro _
    refine ⟨?_, ?_⟩
    · rw [hl, List.filter_eq_self]
      intro m _; rfl
    · apply List.eq_nil_iff_forall_not_mem.mpr
      intro d hd
      have := ((hm d).mp hd).2
      cases this
  · simp only [ho, if_false] at heq
    have hr : r = thenDelete true
        (l', .ok (Spec.offsOf ((abs l).live.filter (fun m => decide (m.off < b))))) := by
      show thenDelete true (findByOffset l before) = _
      rw [heq]
    rw [hr]
    have hsel : ∀ m ∈ (abs l).live,
        (m.off ∈ Spec.offsOf ((abs l).live.filter (fun m => decide (m.off < b))) ↔ m.off < b) := by
      intro m hm
      constructor
      · intro hc
        obtain ⟨x, hx, hxo⟩ := List.mem_map.mp hc
        obtain ⟨hx1, hx2⟩ := List.mem_filter.mp hx
        have : x.off < b := by simpa using hx2
        omega
      · intro hlt
        exact List.mem_map.mpr ⟨m, List.mem_filter.mpr ⟨hm, by simpa using hlt⟩, rfl⟩
    obtain ⟨hi, he, hl, hn, hm, hmsgs⟩ := thenDelete_multi_complete l l' hld hro
      (Spec.offsOf ((abs l).live.filter (fun m => decide (m.off < b))))
      (by
        intro o ho'
        obtain ⟨x, hx, hxo⟩ := List.mem_map.mp ho'
        exact ⟨x, (List.mem_filter.mp hx).1, hxo⟩)
    have hlive : (abs (thenDelete true (l', Out.ok (Spec.offsOf
        ((abs l).live.filter (fun m => decide (m.off < b)))))).1).live =
        (abs l).live.filter (fun m => decide (b ≤ m.off)) := by
      rw [hl]
      apply List.filter_congr
      intro m hm'
      have := hsel m hm'
      by_cases hlt : m.off < b
      · have hc := this.mpr hlt
        have hnb : ¬ b ≤ m.off := by omega
        simp [hc, hnb]
      · have hc : ¬ m.off ∈ Spec.offsOf ((abs l).live.filter (fun m => decide (m.off < b))) :=
          fun hc => hlt (this.mp hc)
        have hnb : b ≤ m.off := by omega
        simp [hc, hnb]
    refine ⟨hi, he, hn, fun hc => absurd hc ho, fun _ => ⟨hlive, ?_, ?_, ?_⟩⟩
    · intro m hm'
      rw [hlive, List.mem_filter] at hm'
      simpa using hm'.2
    · intro d
      rw [hm d]
      constructor
      · intro ⟨hd, hdo⟩; exact ⟨hd, (hsel d hd).mp hdo⟩
      · intro ⟨hd, hdo⟩; exact ⟨hd, (hsel d hd).mpr hdo⟩
    · rw [hmsgs]
      apply List.filter_congr
      intro m hm'
      have := hsel m hm'
      by_cases hlt : m.off < b
      · simp [this.mpr hlt, hlt]
      · have hc : ¬ m.off ∈ Spec.offsOf ((abs l).live.filter (fun m => decide (m.off < b))) :=
          fun hc => hlt (this.mp hc)
        simp [hc, hlt]

/-- `TrimByOffsetMulti(OffsetNewest)` empties the log. -/
theorem trimByOffsetMulti_newest (l : Log) (h : Inv l) (hro : l.opts.readonly = false) :
    (abs (thenDelete true (findByOffset l offsetNewest)).1).live = [] := by
  obtain ⟨_, _, _, _, h5⟩ := trimByOffsetMulti_bound l h hro offsetNewest (by decide)
  obtain ⟨hl, _, _, _⟩ := h5 (by decide)
  rw [hl, List.filter_eq_nil_iff]
  intro m hm
  have := ((abs_wf l h).2 m hm).2
  simp only [if_true, decide_eq_true_eq]
  omega

/-! ### `TrimByCountMulti` -/

/-- **TrimByCountMulti** on a read-write log: no error; the first `n − max` live messages are
removed, the others are untouched; for `0 ≤ max` exactly `min n max` messages remain. -/
theorem trimByCountMulti_bound (l : Log) (h : Inv l) (hro : l.opts.readonly = false) (hmi : MemIdx l)
    (max : Int) :
    let r := thenDelete true (findByCount l max)
    let K := (((abs l).live.length : Int) - max).toNat
    Inv r.1 ∧ r.2.err = none ∧ (abs r.1).next = (abs l).next ∧
    (abs r.1).live = (abs l).live.drop K ∧
    r.2.msgs = (abs l).live.take K ∧
    (0 ≤ max → ((abs r.1).live.length : Int) = min ((abs l).live.length : Int) max) := by
  intro r K
  obtain ⟨l', hld, heq⟩ := findByCount_eq l h hmi max
  have hwf := abs_wf l h
  have hr : r = thenDelete true (l', .ok (Spec.offsOf ((abs l).live.take K))) := by
    show thenDelete true (findByCount l max) = _
    rw [heq]
  rw [hr]
  obtain ⟨hi, he, hl, hn, _, hmsgs⟩ := thenDelete_multi_complete l l' hld hro
    (Spec.offsOf ((abs l).live.take K)) (take_offs_live _ _)
  rw [filter_not_take_offs _ hwf.1 K] at hl
  rw [filter_take_offs _ hwf.1 K] at hmsgs
  refine ⟨hi, he, hn, hl, hmsgs, ?_⟩
  · intro hmax
    rw [hl, List.length_drop]
    omega

/-! ### `TrimBySizeMulti` -/

theorem sizePrefix_prefix (est : Msg → Int) (sz : Int) :
    ∀ (ms : List Msg) (total : Int), Spec.sizePrefix est sz total ms <+: ms
  | [], _ => by simp [Spec.sizePrefix]
  | m :: ms, total => by
    by_cases hlt : total < sz
    · rw [sizePrefix_lt est sz hlt]; exact List.nil_prefix
    · rw [sizePrefix_cons_ge est sz hlt]
      exact (List.cons_prefix_cons).mpr ⟨rfl, sizePrefix_prefix est sz ms _⟩

/-- The prefix `FindBySize` selects brings the estimate below `sz`, or is everything. -/
theorem sizePrefix_reaches (est : Msg → Int) (sz : Int) :
    ∀ (ms : List Msg) (total : Int),
      total - ((Spec.sizePrefix est sz total ms).map est).sum < sz ∨ Spec.sizePrefix est sz total ms = ms
  | [], _ => by right; simp [Spec.sizePrefix]
  | m :: ms, total => by
    by_cases hlt : total < sz
    · left; rw [sizePrefix_lt est sz hlt]; simpa using hlt
    · rw [sizePrefix_cons_ge est sz hlt]
      rcases sizePrefix_reaches est sz ms (total - est m) with h | h
      · left
        simp only [List.map_cons, List.sum_cons]
        omega
      · right; rw [h]

/-- …and no shorter prefix does: before each selected message the estimate was still `≥ sz`. -/
theorem sizePrefix_minimal (est : Msg → Int) (sz : Int) :
    ∀ (ms : List Msg) (total : Int) (k : Nat), k < (Spec.sizePrefix est sz total ms).length →
      sz ≤ total - ((ms.take k).map est).sum
  | [], _, k, hk => by simp [Spec.sizePrefix] at hk
  | m :: ms, total, k, hk => by
    by_cases hlt : total < sz
    · rw [sizePrefix_lt est sz hlt] at hk; simp at hk
    · rw [sizePrefix_cons_ge est sz hlt] at hk
      cases k with
      | zero => simp; omega
      | succ k =>
        have := sizePrefix_minimal est sz ms (total - est m) k (by simpa using hk)
        simp only [List.take_succ_cons, List.map_cons, List.sum_cons]
        omega

/-- **TrimBySizeMulti** on a read-write log: no error; with `S` the `Stat` size and
`P = sizePrefix Size sz S live` (the `FindBySize` selection), exactly `P` is removed, the rest is
untouched; the estimate `S − Σ Size(P)` is below `sz` unless everything was removed, and no
shorter prefix achieves that. -/
theorem trimBySizeMulti_bound (l : Log) (h : Inv l) (hro : l.opts.readonly = false) (hmi : MemIdx l)
    (sz : Int) :
    ∃ st, (l.stat).2 = .ok st ∧
    let r := thenDelete true (findBySize l sz)
    let P := Spec.sizePrefix (sizeOf l) sz st.size (abs l).live
    Inv r.1 ∧ r.2.err = none ∧ (abs r.1).next = (abs l).next ∧
    (abs r.1).live = (abs l).live.drop P.length ∧ P = (abs l).live.take P.length ∧
    r.2.msgs = P ∧
    (st.size - (P.map (sizeOf l)).sum < sz ∨ (abs r.1).live = []) ∧
    (∀ k, k < P.length → sz ≤ st.size - (((abs l).live.take k).map (sizeOf l)).sum) := by
  obtain ⟨st, l', hst, hld, heq⟩ := findBySize_eq l h hmi sz
  refine ⟨st, hst, ?_⟩
  intro r P
  have hwf := abs_wf l h
  have hpre : P <+: (abs l).live := sizePrefix_prefix _ _ _ _
  have hP : P = (abs l).live.take P.length := List.prefix_iff_eq_take.mp hpre
  have hr : r = thenDelete true (l', .ok (Spec.offsOf ((abs l).live.take P.length))) := by
    show thenDelete true (findBySize l sz) = _
    rw [heq, ← hP]
  rw [hr]
  obtain ⟨hi, he, hl, hn, _, hmsgs⟩ := thenDelete_multi_complete l l' hld hro
    (Spec.offsOf ((abs l).live.take P.length)) (take_offs_live _ _)
  rw [filter_not_take_offs _ hwf.1 P.length] at hl
  rw [filter_take_offs _ hwf.1 P.length] at hmsgs
  refine ⟨hi, he, hn, hl, hP, hmsgs.trans hP.symm, ?_, ?_⟩
  · rcases sizePrefix_reaches (sizeOf l) sz (abs l).live st.size with h1 | h1
    · exact Or.inl h1
    · right
      rw [hl]
      have : P.length = (abs l).live.length := congrArg List.length h1
      rw [this, List.drop_length]
  · intro k hk
    exact sizePrefix_minimal (sizeOf l) sz (abs l).live st.size k hk

/-! ### both modes (`Trim*` with a single `Delete`, or `DeleteMulti`): only selected messages go -/

/-- After a `Find*` that only loaded indexes and returned the offsets of a list `Sel` of live
messages, `thenDelete` (either mode, any handle) removes exactly what it reports, and reports
only messages of `Sel`. -/
theorem thenDelete_any (l l1 : Log) (h : Inv l) (hld : Loaded l l1) (multi : Bool) (Sel : List Msg)
    (hsel : ∀ x ∈ Sel, x ∈ (abs l).live) :
    let r := thenDelete multi (l1, .ok (Spec.offsOf Sel))
    Inv r.1 ∧ (abs r.1).live = Spec.removeAll (abs l).live r.2.msgs ∧ (abs r.1).next = (abs l).next ∧
    r.2.msgs.Nodup ∧ ∀ d ∈ r.2.msgs, d ∈ Sel := by
  intro r
  have hrem := thenDelete_removed l l1 hld multi (Spec.offsOf Sel)
  refine ⟨hrem.inv, hrem.live, hrem.next, hrem.nodup, ?_⟩
  intro d hd
  obtain ⟨hd1, hd2⟩ := hrem.sub d hd
  obtain ⟨x, hx, hxo⟩ := List.mem_map.mp hd2
  have := eq_of_off_eq (abs_wf l h).1 (hsel x hx) hd1 hxo
  rw [← this]; exact hx

/-- **TrimByOffset / TrimByOffsetMulti**, any handle: only live messages below the bound are
removed (none for `OffsetOldest`), and exactly the reported ones. -/
theorem trimByOffset_any (l : Log) (h : Inv l) (before : Int) (hb : -4 < before) (multi : Bool) :
    let r := thenDelete multi (findByOffset l before)
    let b := if before = offsetNewest then (abs l).next else before
    Inv r.1 ∧ (abs r.1).live = Spec.removeAll (abs l).live r.2.msgs ∧ (abs r.1).next = (abs l).next ∧
    r.2.msgs.Nodup ∧
    ∀ d ∈ r.2.msgs, d ∈ (abs l).live ∧ before ≠ offsetOldest ∧ d.off < b := by
  intro r b
  obtain ⟨l', hld, heq⟩ := findByOffset_eq l h before hb
  by_cases ho : before = offsetOldest
  · simp only [ho, if_true] at heq
    have hr : r = thenDelete multi (l', .ok (Spec.offsOf [])) := by
      show thenDelete multi (findByOffset l before) = _
      rw [ho, heq]; rfl
    rw [hr]
    obtain ⟨h1, h2, h3, h4, h5⟩ := thenDelete_any l l' h hld multi [] (by intro x hx; cases hx)
    exact ⟨h1, h2, h3, h4, fun d hd => by cases h5 d hd⟩
  · simp only [ho, if_false] at heq
    have hr : r = thenDelete multi
        (l', .ok (Spec.offsOf ((abs l).live.filter (fun m => decide (m.off < b))))) := by
      show thenDelete multi (findByOffset l before) = _
      rw [heq]
    rw [hr]
    obtain ⟨h1, h2, h3, h4, h5⟩ := thenDelete_any l l' h hld multi
      ((abs l).live.filter (fun m => decide (m.off < b))) (fun x hx => (List.mem_filter.mp hx).1)
    refine ⟨h1, h2, h3, h4, ?_⟩
    intro d hd
    obtain ⟨hd1, hd2⟩ := List.mem_filter.mp (h5 d hd)
    exact ⟨hd1, ho, by simpa using hd2⟩

/-- **TrimByCount / TrimByCountMulti**, any handle: only messages among the first `n − max` are
removed, so at least `min n max` remain. -/
theorem trimByCount_any (l : Log) (h : Inv l) (hmi : MemIdx l) (max : Int) (multi : Bool) :
    let r := thenDelete multi (findByCount l max)
    let K := (((abs l).live.length : Int) - max).toNat
    Inv r.1 ∧ (abs r.1).live = Spec.removeAll (abs l).live r.2.msgs ∧ (abs r.1).next = (abs l).next ∧
    r.2.msgs.Nodup ∧ (∀ d ∈ r.2.msgs, d ∈ (abs l).live.take K) ∧
    (∀ m ∈ (abs l).live.drop K, m ∈ (abs r.1).live) := by
  intro r K
  obtain ⟨l', hld, heq⟩ := findByCount_eq l h hmi max
  have hwf := abs_wf l h
  have hr : r = thenDelete multi (l', .ok (Spec.offsOf ((abs l).live.take K))) := by
    show thenDelete multi (findByCount l max) = _
    rw [heq]
  rw [hr]
  obtain ⟨h1, h2, h3, h4, h5⟩ := thenDelete_any l l' h hld multi ((abs l).live.take K)
    (fun x hx => List.mem_of_mem_take hx)
  refine ⟨h1, h2, h3, h4, h5, ?_⟩
  intro m hm
  rw [h2, mem_removeAll]
  refine ⟨List.mem_of_mem_drop hm, ?_⟩
  intro hc
  have hp := hwf.1
  rw [← List.take_append_drop K (abs l).live, List.pairwise_append] at hp
  have := hp.2.2 m (h5 m hc) m hm
  omega

/-- **TrimBySize / TrimBySizeMulti**, any handle: only messages of the `FindBySize` selection are
removed. -/
theorem trimBySize_any (l : Log) (h : Inv l) (hmi : MemIdx l) (sz : Int) (multi : Bool) :
    ∃ st, (l.stat).2 = .ok st ∧
    let r := thenDelete multi (findBySize l sz)
    Inv r.1 ∧ (abs r.1).live = Spec.removeAll (abs l).live r.2.msgs ∧ (abs r.1).next = (abs l).next ∧
    r.2.msgs.Nodup ∧ ∀ d ∈ r.2.msgs, d ∈ Spec.sizePrefix (sizeOf l) sz st.size (abs l).live := by
  obtain ⟨st, l', hst, hld, heq⟩ := findBySize_eq l h hmi sz
  refine ⟨st, hst, ?_⟩
  intro r
  have hr : r = thenDelete multi
      (l', .ok (Spec.offsOf (Spec.sizePrefix (sizeOf l) sz st.size (abs l).live))) := by
    show thenDelete multi (findBySize l sz) = _
    rw [heq]
  rw [hr]
  exact thenDelete_any l l' h hld multi _
    (fun x hx => (sizePrefix_prefix (sizeOf l) sz (abs l).live st.size).subset hx)

/-- **TrimByAge / TrimByAgeMulti**, any handle: whatever `FindByAge` answers, only live messages
not newer than `t` are removed, and exactly the reported ones. -/
theorem trimByAge_any (l : Log) (h : Inv l) (t : Int) (multi : Bool) :
    let r := thenDelete multi (findByAge l t)
    Inv r.1 ∧ (abs r.1).live = Spec.removeAll (abs l).live r.2.msgs ∧ (abs r.1).next = (abs l).next ∧
    r.2.msgs.Nodup ∧ ∀ d ∈ r.2.msgs, d ∈ (abs l).live ∧ d.time ≤ t := by
  intro r
  obtain ⟨hld, hres⟩ := findByAge_res l h t
  cases hf : findByAge l t with
  | mk l1 q =>
    rw [hf] at hld hres
    simp only at hld hres
    cases q with
    | err e =>
      have hr : r = (l1, ⟨some e, [], 0⟩) := by
        show thenDelete multi (findByAge l t) = _
        rw [hf]; rfl
      rw [hr]
      exact ⟨hld.inv, by simp only; rw [hld.abs, removeAll_nil], by simp only; rw [hld.abs],
        List.nodup_nil, fun d hd => by cases hd⟩
    | ok offs =>
      obtain ⟨P, R, hPR, hoffs⟩ := hres offs rfl
      have hr : r = thenDelete multi
          (l1, .ok (Spec.offsOf (P.takeWhile (fun m => decide (m.time ≤ t))))) := by
        show thenDelete multi (findByAge l t) = _
        rw [hf, hoffs]
      rw [hr]
      have hsub : ∀ x ∈ P.takeWhile (fun m => decide (m.time ≤ t)), x ∈ (abs l).live := by
        intro x hx
        rw [← hPR]
        exact List.mem_append_left _ (mem_takeWhile _ _ _ hx).1
      obtain ⟨h1, h2, h3, h4, h5⟩ := thenDelete_any l l1 h hld multi _ hsub
      refine ⟨h1, h2, h3, h4, ?_⟩
      intro d hd
      have hd' := h5 d hd
      exact ⟨hsub d hd', by simpa using (mem_takeWhile _ _ _ hd').2⟩

/-! ### `Stat` in every reachable state -/

/-- From a read-write open of an empty directory, after any history of publish / delete /
consume / get / GC / close-and-reopen (with any options, index files removed, migration,
recovery), `Stat` succeeds and counts exactly the live messages and the segments. -/
theorem stat_reachable (oo : OpenOpts) (hrw : oo.opts.readonly = false) (ops : List Op) :
    ∃ l0, Log.open [] oo = .ok l0 ∧
      ∃ st, ((runOps l0 ops).stat).2 = .ok st ∧
        st.messages = ((abs (runOps l0 ops)).live.length : Int) ∧
        st.segments = ((runOps l0 ops).segs.length : Int) ∧
        Spec.StatOK (abs (runOps l0 ops)) ((runOps l0 ops).stat).2 := by
  obtain ⟨l0, ho, hinv, hmi⟩ := reach_memIdx oo hrw ops
  obtain ⟨st, hst, hmsg, hseg, _⟩ := stat_spec _ hinv hmi
  exact ⟨l0, ho, st, hst, hmsg, hseg, stat_ok _ hinv hmi⟩

end Klev

#print axioms Klev.findByCount_ok
#print axioms Klev.findBySize_ok
#print axioms Klev.trimByOffsetMulti_bound
#print axioms Klev.trimByOffsetMulti_newest
#print axioms Klev.trimByCountMulti_bound
#print axioms Klev.trimBySizeMulti_bound
#print axioms Klev.trimByOffset_any
#print axioms Klev.trimByCount_any
#print axioms Klev.trimBySize_any
#print axioms Klev.trimByAge_any
#print axioms Klev.stat_reachable
