/-
Non-vacuity witnesses.

Most property theorems (`Klev/Props/Cxx.lean`) carry hypotheses: `Inv l`, `KeysInv l`,
`TimesInv l`, `FirstAtBase l`, `MemIdx l`, `Spec.Monotone (abs l)`, a read-write handle,
`DiskOK d`, encodable messages, sorted indexes … A theorem whose hypotheses no state
satisfies would say nothing. Here concrete, non-trivial objects are built *by running the
API from an empty directory* and shown to satisfy all of them — through the reachability
theorems (`run_inv_abs`, `keysInv'_run`, `times_run`, `firstAtBase_run`, `run_memIdx`,
`good_runX`), not by unfolding the invariants by hand. The property files instantiate their
theorems at these witnesses.
-/
import Klev.Proofs.ExtReads
import Klev.Proofs.MemIdxInv
import Klev.Proofs.StatOK
import Klev.Proofs.IndexSearch
import Klev.Proofs.SegSearch
namespace Klev.Witness
open Klev

/-! ### the history -/

/-- Read-write, time index **and** key index on, rollover after 60 bytes (a V2 record with a
one-byte key and value takes 38 bytes, so every batch of two or more seals the head),
new segments in V2. -/
def oo : OpenOpts := ⟨⟨false, ⟨true, true⟩, false, 60, Ver.v2, false⟩, false, false, false⟩

/-- The history. Times never decrease; offsets 1 and 2 tie at time 20 *across* a segment
boundary; key `[1]` is published three times, key `[2]` twice; offset 4 has no value and is
the only message of key `[6]`; offset 3 is deleted from the middle of a sealed segment (a
hole), offset 7 from the end of the head (the tail: the rewritten segment is sealed and an
empty head opens at 8); then GC, a close / reopen with the index file of segment 2 removed,
a `Get` that rebuilds that index, and one more publish into the head. -/
def ops : List Op :=
  [ .publish [(10, [1], [1]), (20, [2], [2])],                  -- offsets 0 1
    .consume 0 10,
    .publish [(20, [1], [3]), (30, [3], [4]), (30, [6], [])],   -- rolls: offsets 2 3 4
    .publish [(30, [4], [5]), (40, [1], [6]), (40, [5], [7])],  -- rolls: offsets 5 6 7
    .delete [3],                                                -- hole inside segment 2
    .delete [7],                                                -- tail of the head
    .gc,
    .reopen [2] none false oo,                                  -- index file of segment 2 removed
    .get 4,                                                     -- … and rebuilt on first use
    .publish [(50, [2], [8])] ]                                 -- offset 8

/-- What `Open` returns on an empty directory. -/
def l0 : Log := ⟨oo.opts, [⟨0, .v2, [], some ⟨.v2, []⟩, some []⟩], 0, 0⟩

theorem open_l0 : Log.open [] oo = .ok l0 := by decide

/-- **The witness**: the state the history reaches. -/
def wL : Log := runOps l0 ops

/-! ### facts about the history (conditions on the operation list alone) -/

theorem ops_same : SameParams oo.opts.params ops := by
  simp [SameParams, OpParams, ops, oo]

theorem ops_mono : PubMono 0 ops := by
  simp [PubMono, PubMonoOp, hwNext, lastTime, ops]

theorem l0_inv : Inv l0 := (open_empty_unique oo l0 open_l0).1

theorem l0_abs : abs l0 = ⟨[], 0⟩ := (open_empty_unique oo l0 open_l0).2.1

theorem l0_carry : TimeCarry l0 0 := by unfold TimeCarry; decide

theorem ops_timesOK : TimesOKRun l0 ops :=
  timesOKRun_of_pubMono l0 l0_inv rfl (timesInv_open_empty oo l0 open_l0)
    (by rw [l0_abs]; exact monotone_empty) 0 l0_carry ops ops_same ops_mono

/-! ### the hypotheses of the property theorems hold of `wL` (by reachability) -/

theorem wL_inv : Inv wL := (run_inv_abs l0 l0_inv ops).1

/-- Its content is the list semantics of the history. -/
theorem wL_abs : abs wL = specRun ⟨[], 0⟩ l0 ops := by
  have := (run_inv_abs l0 l0_inv ops).2
  rw [l0_abs] at this
  exact this

theorem wL_rw : wL.opts.readonly = false := by decide

theorem wL_keysOn : wL.opts.params.keys = true := by decide

theorem wL_timesOn : wL.opts.params.times = true := by decide

theorem wL_fab : FirstAtBase wL :=
  firstAtBase_run l0 l0_inv (firstAtBase_open_empty oo l0 open_l0) ops

theorem wL_keysInv' : KeysInv' wL :=
  keysInv'_run l0 l0_inv (fun _ => keysInv_open_empty oo l0 open_l0) ops ops_same

theorem wL_keysInv : KeysInv wL := wL_keysInv' wL_keysOn

theorem wL_times : TimesInv wL ∧ Spec.Monotone (abs wL) :=
  times_run l0 l0_inv rfl (timesInv_open_empty oo l0 open_l0)
    (by rw [l0_abs]; exact monotone_empty) ops ops_same ops_timesOK

theorem wL_timesInv : TimesInv wL := wL_times.1

theorem wL_mono : Spec.Monotone (abs wL) := wL_times.2

theorem wL_memIdx : MemIdx wL :=
  run_memIdx l0 l0_inv (open_memIdx [] oo l0 open_l0 (Or.inr rfl)) ops

theorem wL_good : Good wL :=
  ⟨wL_inv, wL_fab, wL_keysInv', fun _ => wL_times⟩

theorem wL_diskOK : DiskOK wL.disk := (disk_of_inv wL wL_inv).1

theorem wL_absDisk : absDisk wL.disk = abs wL := (disk_of_inv wL wL_inv).2

/-! ### the witness is not trivial (evaluated) -/

/-- Four segments `0: [0, 1]`, `2: [2, 4]` (hole at 3), `5: [5, 6]` (tail 7 deleted),
`8: [8]`; seven live messages; next offset 9. -/
theorem wL_shape :
    (shape wL.segs).map (fun br => (br.1, br.2.map (·.off))) =
      [(0, [0, 1]), (2, [2, 4]), (5, [5, 6]), (8, [8])] ∧ (abs wL).next = 9 := by decide

theorem wL_segs : wL.segs.length ≥ 3 := by decide

theorem wL_live : (abs wL).live.length ≥ 5 := by decide

theorem wL_wf : Spec.WF (abs wL) := abs_wf wL wL_inv

/-- The time carry at the end of the history: the writer's `nextTime` and every live time are
at most 50 (the last published time). -/
theorem wL_carry : TimeCarry wL 50 := by unfold TimeCarry; decide

/-! ### the same history with the lookups inside (`OpX`: they load indexes) -/

def xs : List OpX :=
  [ .op (.publish [(10, [1], [1]), (20, [2], [2])]),
    .getByKey [1],
    .op (.consume 0 10),
    .op (.publish [(20, [1], [3]), (30, [3], [4]), (30, [6], [])]),
    .getByTime 20,
    .op (.publish [(30, [4], [5]), (40, [1], [6]), (40, [5], [7])]),
    .consumeByKey [1] 0 10,
    .op (.delete [3]),
    .op (.delete [7]),
    .op .gc,
    .op (.reopen [2] none false oo),
    .getByTime 30,
    .op (.publish [(50, [2], [8])]),
    .getByKey [2] ]

/-- The state the extended history reaches (same content as `wL`, other indexes loaded). -/
def wX : Log := runX l0 xs

theorem xs_same : SameParamsX oo.opts.params xs := by
  simp [SameParamsX, OpParamsX, OpParams, xs, oo]

theorem xs_mono : PubMonoX 0 xs := by
  simp [PubMonoX, PubMonoOpX, PubMonoOp, hwNextX, hwNext, lastTime, xs]

theorem l0_good : Good l0 := good_open_empty oo l0 open_l0

theorem xs_timesOK : TimesOKRunX l0 xs :=
  timesOKRunX_of_pubMonoX l0 l0_good rfl 0 l0_carry xs xs_same xs_mono

theorem wX_good : Good wX := good_runX l0 l0_good xs xs_same (fun _ => xs_timesOK)

theorem wX_content : (abs wX).live = (abs wL).live ∧ (abs wX).next = (abs wL).next := by decide

/-- Which reader indexes are in memory differs (`wL`: segments 2 and 8; `wX`: 2, 5 and 8). -/
theorem wX_loaded : wL.segs.map (·.mem.isSome) = [false, true, false, true] ∧
    wX.segs.map (·.mem.isSome) = [false, true, true, true] := by decide

/-! ### a key-index-only configuration (no condition on times) -/

def ooK : OpenOpts := ⟨⟨false, ⟨false, true⟩, false, 60, Ver.v2, false⟩, false, false, false⟩

def l0K : Log := ⟨ooK.opts, [⟨0, .v2, [], some ⟨.v2, []⟩, some []⟩], 0, 0⟩

theorem open_l0K : Log.open [] ooK = .ok l0K := by decide

/-- Times go *down* here (30, 20, then 5): allowed without the time index. -/
def xsK : List OpX :=
  [ .op (.publish [(30, [1], [1]), (20, [2], [2])]),
    .getByKey [1],
    .op (.publish [(5, [1], [3]), (5, [3], [4])]),
    .op (.delete [0]),
    .op (.reopen [] none false ooK),
    .consumeByKey [1] 0 10 ]

theorem xsK_same : SameParamsX ooK.opts.params xsK := by
  simp [SameParamsX, OpParamsX, OpParams, xsK, ooK]

/-! ### the files of `wL`, reopened read-only and read-write -/

/-- Read-only, with Check. -/
def ooRO : OpenOpts := ⟨⟨true, ⟨true, true⟩, false, 60, Ver.v2, false⟩, true, false, false⟩

def wRO : Log := ⟨ooRO.opts, wL.disk.map SegDisk.toSeg, 0, 0⟩

theorem open_wRO : Log.open wL.disk ooRO = .ok wRO := by decide

theorem wRO_inv : Inv wRO := (open_spec wL.disk wL_diskOK ooRO wRO open_wRO).1

theorem wRO_abs : abs wRO = abs wL :=
  ((open_spec wL.disk wL_diskOK ooRO wRO open_wRO).2.1).trans wL_absDisk

theorem wRO_ro : wRO.opts.readonly = true := rfl

theorem wRO_memIdx : MemIdx wRO := open_memIdx wL.disk ooRO wRO open_wRO (Or.inl (by decide))

/-- Read-write again, with Recover. -/
def ooRec : OpenOpts := { oo with recover := true }

def wRW : Log := match Log.open wL.disk ooRec with | .ok l => l | .err _ => l0

theorem open_wRW : Log.open wL.disk ooRec = .ok wRW := by decide

/-! ### a concrete sorted index and a concrete base list (the search theorems) -/

/-- The index of the seven live messages in one file: offsets 0 1 2 4 5 6 8 (holes at 3 and
7), timestamps 10 20 20 30 30 40 50 (ties). -/
def wIdx : List Item := derive oo.opts.params .v2 (abs wL).live

theorem wIdx_val : wIdx.map (fun it => (it.off, it.pos, it.ts)) =
    [(0, 8, 10), (1, 46, 20), (2, 84, 20), (4, 122, 30), (5, 159, 30), (6, 197, 40), (8, 235, 50)] := by
  decide

theorem wIdx_sortedOff : SortedOff wIdx := by unfold SortedOff; decide

theorem wIdx_sortedTs : SortedTs wIdx := by unfold SortedTs; decide

/-- The segment bases of `wL`. -/
theorem wL_bases : bases wL = [0, 2, 5, 8] := by decide

theorem wL_bases_sorted : SortedB (bases wL) := by unfold SortedB; decide

end Klev.Witness

#print axioms Klev.Witness.open_l0
#print axioms Klev.Witness.wL_inv
#print axioms Klev.Witness.wL_abs
#print axioms Klev.Witness.wL_good
#print axioms Klev.Witness.wL_keysInv
#print axioms Klev.Witness.wL_times
#print axioms Klev.Witness.wL_fab
#print axioms Klev.Witness.wL_memIdx
#print axioms Klev.Witness.wL_diskOK
#print axioms Klev.Witness.wL_shape
#print axioms Klev.Witness.wL_carry
#print axioms Klev.Witness.wX_good
#print axioms Klev.Witness.wRO_inv
#print axioms Klev.Witness.wRO_memIdx
#print axioms Klev.Witness.open_wRW
#print axioms Klev.Witness.wIdx_sortedOff
#print axioms Klev.Witness.wIdx_sortedTs
#print axioms Klev.Witness.wL_bases_sorted
