/-
Non-vacuity witnesses, byte level: concrete encodable messages (the content of the witness
log of `Witness.lean`, written out) for the codec / scan / Recover / Check theorems. Kept
apart from `Witness.lean` so that the record-level witness does not depend on the
regenerated layout constants (`Klev.Gen.Consts`).
-/
import Klev.Proofs.Codec
import Klev.Proofs.RecoverCheck
namespace Klev.Witness
open Klev

instance (m : Msg) : Decidable m.Encodable := by unfold Msg.Encodable; infer_instance

/-- The seven live messages of `Witness.wL` (`wMs_eq` in the property files that see both):
a repeated key, a value-less message, holes at offsets 3 and 7. -/
def wMs : List Msg :=
  [⟨0, 10, [1], [1]⟩, ⟨1, 20, [2], [2]⟩, ⟨2, 20, [1], [3]⟩, ⟨4, 30, [6], []⟩,
   ⟨5, 30, [4], [5]⟩, ⟨6, 40, [1], [6]⟩, ⟨8, 50, [2], [8]⟩]

theorem wMs_enc : ∀ m ∈ wMs, m.Encodable := by decide

/-- A batch appended behind them. -/
def wBs : List Msg := [⟨9, 50, [7], [1, 2, 3]⟩, ⟨10, 60, [], [4]⟩]

theorem wBs_enc : ∀ m ∈ wBs, m.Encodable := by decide

/-- One more message: negative time, empty key, three value bytes. -/
def wM : Msg := ⟨11, -7, [], [9, 8, 7]⟩

theorem wM_enc : wM.Encodable := by decide

/-! ### sizes (through `render_length_logSize` / `enc_length`, not by evaluating the bytes) -/

theorem wMs_len : (render .v2 wMs).length = 273 := by
  have h := render_length_logSize .v2 wMs
  have : logSize .v2 wMs = 273 := by decide
  omega

theorem wMsBs_len : (render .v2 (wMs ++ wBs)).length = 350 := by
  have h := render_length_logSize .v2 (wMs ++ wBs)
  have : logSize .v2 (wMs ++ wBs) = 350 := by decide
  omega

theorem wBs_len : (encAll .v2 wBs).length = 77 := by
  have h1 := wMsBs_len
  rw [render_append, List.length_append, wMs_len] at h1
  omega

theorem wM_len : (enc .v2 wM).length = 39 ∧ (enc .v1 wM).length = 31 := by
  have h2 := enc_length .v2 wM
  have h1 := enc_length .v1 wM
  have : recSize .v2 wM = 39 ∧ recSize .v1 wM = 31 := by decide
  omega

theorem wMs_size : (render .v2 wMs).length < two63 := by rw [wMs_len]; decide

theorem wMsBs_size : (render .v2 (wMs ++ wBs)).length < two63 := by rw [wMsBs_len]; decide

theorem wMs_first : ∀ m ∈ wMs.head?, m.off = 0 := by decide

theorem wMsBs_first : ∀ m ∈ (wMs ++ wBs).head?, m.off = 0 := by decide

end Klev.Witness

#print axioms Klev.Witness.wMs_enc
#print axioms Klev.Witness.wBs_enc
#print axioms Klev.Witness.wM_enc
#print axioms Klev.Witness.wMs_size
#print axioms Klev.Witness.wMsBs_size
#print axioms Klev.Witness.wBs_len
#print axioms Klev.Witness.wM_len
