/-
C01 — Log content fidelity: nothing lost, nothing invented, nothing altered.

The L0 state `abs l` *is* the content of the log: the records of all segments in order.
Fidelity is the conjunction of (a) every operation changes `abs` exactly as the L0
relation says (publish appends the stamped batch; delete removes what it reports; reads,
GC, rollover change nothing), (b) the invariant is kept, (c) reading from the oldest
offset returns `abs l` (C03). The step theorems are collected here as they are proved.
-/
import Klev.Proofs.Publish
import Klev.Proofs.ReadInv
import Klev.Proofs.Reach
namespace Klev.C01

/-- **Fidelity.** From any state satisfying the invariant, after any finite sequence of
steps — Publish (any batch incl. empty, any key/value bytes, any times), Delete (any
offset set; the trims, compactions and DeleteMulti are client loops of Consume + Delete),
Consume / Get, GC, Close + reopen with index files removed, package-level Migrate /
Recover, and Open with any re-drawn options (Rollover, Check, Recover,
NewSegmentsVersion, KeepRewriteVersion, EagerVersionMigrate, read-only) — the invariant
holds and the content `abs` equals the L0 list semantics of the history: append what was
published stamped from `next`, remove exactly what Delete reported, nothing else. -/
theorem fidelity (l : Log) (hinv : Inv l) (ops : List Op) :
    Inv (runOps l ops) ∧ abs (runOps l ops) = specRun (abs l) l ops :=
  Klev.run_inv_abs l hinv ops

/-- … in particular for every history from an empty directory opened with any options. -/
theorem fidelity_from_empty (oo : OpenOpts) (ops : List Op) :
    ∃ l0, Log.open [] oo = .ok l0 ∧ Inv (runOps l0 ops) ∧
      abs (runOps l0 ops) = specRun ⟨[], 0⟩ l0 ops :=
  Klev.reach_from_empty oo ops

/-- One step: invariant kept, content changed exactly as the list semantics says. -/
theorem step (l : Log) (hinv : Inv l) (op : Op) :
    Inv (stepOp l op) ∧ abs (stepOp l op) = specStep (abs l) l op :=
  Klev.step_inv_abs l hinv op

/-- Publish (with rollover at any size, any batch incl. empty, any key/value bytes and
times) appends exactly the stamped batch and keeps the invariant. -/
theorem publish_step (l : Log) (hinv : Inv l) (batch : List (Int × List UInt8 × List UInt8)) :
    Inv (l.publish batch).1 ∧
    Spec.PublishOK l.opts.readonly (abs l) batch (l.publish batch).2 (abs (l.publish batch).1) :=
  Klev.publish_step l hinv batch

/-- Rollover alone changes no content. -/
theorem rollover_keeps_content (l : Log) (hinv : Inv l) (hro : l.opts.readonly = false) :
    Inv l.rollover ∧ abs l.rollover = abs l :=
  ⟨(Klev.rollover_spec l hinv hro).1, (Klev.rollover_spec l hinv hro).2.1⟩

/-- Reading changes no content (it may load or rebuild indexes). -/
theorem consume_keeps_content (l : Log) (hinv : Inv l) (off : Int) (mc : Nat) :
    Inv (l.consume off mc).1 ∧ abs (l.consume off mc).1 = abs l :=
  Klev.consume_inv l hinv off mc

/-- What a reader sees is the L0 content: the result of Consume is a prefix of the live
messages at or after the offset (C03's theorem, restated here because the observation of
C01 is a scan). -/
theorem consume_shows_content (l : Log) (hinv : Inv l) (off : Int) (mc : Nat) (hmc : 1 ≤ mc) :
    Spec.ConsumeOK (abs l) off mc (l.consume off mc).2 :=
  Klev.consume_ok l hinv off mc hmc

end Klev.C01

#print axioms Klev.C01.fidelity
#print axioms Klev.C01.fidelity_from_empty
#print axioms Klev.C01.step
#print axioms Klev.C01.publish_step
#print axioms Klev.C01.rollover_keeps_content
#print axioms Klev.C01.consume_keeps_content
#print axioms Klev.C01.consume_shows_content
