/-
C01 — Log content fidelity: nothing lost, nothing invented, nothing altered.

The L0 state `abs l` *is* the content of the log: the records of all segments in order.
Fidelity is the conjunction of (a) every operation changes `abs` exactly as the L0
relation says (publish appends the stamped batch; delete removes what it reports; reads,
GC, rollover change nothing), (b) the invariant is kept, (c) reading from the oldest
offset returns `abs l` (C03). The step theorems are collected here as they are proved.
-/
import Klev.Proofs.Publish
import Klev.Proofs.ReadInv
import Klev.Proofs.Reach
import Klev.Proofs.Witness
namespace Klev.C01

/-- **Fidelity.** From any state satisfying the invariant, after any finite sequence of
steps — Publish (any batch incl. empty, any key/value bytes, any times), Delete (any
offset set; the trims, compactions and DeleteMulti are client loops of Consume + Delete),
Consume / Get, GC, Close + reopen with index files removed, package-level Migrate /
Recover, and Open with any re-drawn options (Rollover, Check, Recover,
NewSegmentsVersion, KeepRewriteVersion, EagerVersionMigrate, read-only) — the invariant
holds and the content `abs` equals the L0 list semantics of the history: append what was
published stamped from `next`, remove exactly what Delete reported, nothing else. -/
theorem fidelity (l : Log) (hinv : Inv l) (ops : List Op) :
    Inv (runOps l ops) ∧ abs (runOps l ops) = specRun (abs l) l ops :=
  Klev.run_inv_abs l hinv ops

/-- … in particular for every history from an empty directory opened with any options. -/
theorem fidelity_from_empty (oo : OpenOpts) (ops : List Op) :
    ∃ l0, Log.open [] oo = .ok l0 ∧ Inv (runOps l0 ops) ∧
      abs (runOps l0 ops) = specRun ⟨[], 0⟩ l0 ops :=
  Klev.reach_from_empty oo ops

/-- One step: invariant kept, content changed exactly as the list semantics says. -/
theorem step (l : Log) (hinv : Inv l) (op : Op) :
    Inv (stepOp l op) ∧ abs (stepOp l op) = specStep (abs l) l op :=
  Klev.step_inv_abs l hinv op

/-- Publish (with rollover at any size, any batch incl. empty, any key/value bytes and
times) appends exactly the stamped batch and keeps the invariant. -/
theorem publish_step (l : Log) (hinv : Inv l) (batch : List (Int × List UInt8 × List UInt8)) :
    Inv (l.publish batch).1 ∧
    Spec.PublishOK l.opts.readonly (abs l) batch (l.publish batch).2 (abs (l.publish batch).1) :=
  Klev.publish_step l hinv batch

/-- Rollover alone changes no content. -/
theorem rollover_keeps_content (l : Log) (hinv : Inv l) (hro : l.opts.readonly = false) :
    Inv l.rollover ∧ abs l.rollover = abs l :=
  ⟨(Klev.rollover_spec l hinv hro).1, (Klev.rollover_spec l hinv hro).2.1⟩

/-- Reading changes no content (it may load or rebuild indexes). -/
theorem consume_keeps_content (l : Log) (hinv : Inv l) (off : Int) (mc : Nat) :
    Inv (l.consume off mc).1 ∧ abs (l.consume off mc).1 = abs l :=
  Klev.consume_inv l hinv off mc

/-- What a reader sees is the L0 content: the result of Consume is a prefix of the live
messages at or after the offset (C03's theorem, restated here because the observation of
C01 is a scan). -/
theorem consume_shows_content (l : Log) (hinv : Inv l) (off : Int) (mc : Nat) (hmc : 1 ≤ mc) :
    Spec.ConsumeOK (abs l) off mc (l.consume off mc).2 :=
  Klev.consume_ok l hinv off mc hmc

end Klev.C01

/-! ### Non-vacuity

The hypotheses of the theorems above are jointly satisfiable: each theorem is instantiated at
the witness log `Witness.wL` (`Klev/Proofs/Witness.lean`: four segments, a hole, a deleted
tail, key and time index on, reached from an empty directory by running the API), and the
concrete conclusions are evaluated. -/
section NonVacuity
open Klev Klev.Witness

-- `fidelity` at the empty log is the statement about the witness itself …
example : Inv wL ∧ abs wL = specRun (abs l0) l0 ops := Klev.C01.fidelity l0 l0_inv ops
example := Klev.C01.fidelity_from_empty oo ops
-- … and the witness is again a legitimate starting state
example := Klev.C01.fidelity wL wL_inv [.publish [(60, [9], [9])], .delete [0, 8], .gc, .get 4]
example := Klev.C01.step wL wL_inv (.delete [4])
example := Klev.C01.publish_step wL wL_inv [(60, [9], [9]), (61, [], [])]
example := Klev.C01.rollover_keeps_content wL wL_inv wL_rw
example := Klev.C01.consume_keeps_content wL wL_inv 2 3
example := Klev.C01.consume_shows_content wL wL_inv 2 3 (by decide)

-- evaluated: the content of the witness, a Consume across the hole, a further history
example : (abs wL).live.map (fun m => (m.off, m.time, m.key, m.val)) =
    [(0, 10, [1], [1]), (1, 20, [2], [2]), (2, 20, [1], [3]), (4, 30, [6], []),
     (5, 30, [4], [5]), (6, 40, [1], [6]), (8, 50, [2], [8])] ∧ (abs wL).next = 9 := by decide
example : (wL.consume 2 3).2 = .ok (5, [⟨2, 20, [1], [3]⟩, ⟨4, 30, [6], []⟩]) := by decide
example : (wL.consume 3 1).2 = .ok (5, [⟨4, 30, [6], []⟩]) := by decide
example : (abs (runOps wL [.publish [(60, [9], [9])], .delete [0, 8], .gc, .get 4])).live.map (·.off) =
    [1, 2, 4, 5, 6, 8, 9] := by decide
example : (abs wL.rollover).live = (abs wL).live ∧ wL.rollover.segs.length = wL.segs.length := by decide

end NonVacuity

#print axioms Klev.C01.fidelity
#print axioms Klev.C01.fidelity_from_empty
#print axioms Klev.C01.step
#print axioms Klev.C01.publish_step
#print axioms Klev.C01.rollover_keeps_content
#print axioms Klev.C01.consume_keeps_content
#print axioms Klev.C01.consume_shows_content
