/-
C02 — Offsets are dense, increasing and never reused.
-/
import Klev.Proofs.Publish
import Klev.Proofs.Reach
import Klev.Proofs.Witness
namespace Klev.C02

/-- **Never reused.** Along any history — deleting the newest messages, emptying the whole
log, closing and reopening with any options included — the offsets assigned by Publish
are strictly increasing in order of assignment (so no offset is assigned twice in the life
of the directory) and never below the next offset of the starting state. -/
theorem never_reused (l : Log) (hinv : Inv l) (ops : List Op) :
    (assigned l ops).Pairwise (fun a b => a < b) ∧ ∀ x ∈ assigned l ops, (abs l).next ≤ x :=
  Klev.assigned_increasing l hinv ops

/-- `NextOffset` never moves backwards, whatever the step. -/
theorem next_monotone (l : Log) (hinv : Inv l) (op : Op) : (abs l).next ≤ (abs (stepOp l op)).next :=
  Klev.step_next_ge l hinv op

/-- On every log state satisfying the invariant, with rollover at any size, for every batch
(including the empty one): Publish returns `NextOffset + n`, the new live sequence is the
old one followed by the batch stamped with exactly the offsets `next, next+1, …` in order
(the model's batch carries no caller offset at all: it is ignored), and the invariant
is kept. On a read-only handle nothing changes and `ErrReadonly` is returned. -/
theorem publish_offsets (l : Log) (hinv : Inv l) (batch : List (Int × List UInt8 × List UInt8)) :
    Inv (l.publish batch).1 ∧
    Spec.PublishOK l.opts.readonly (abs l) batch (l.publish batch).2 (abs (l.publish batch).1) :=
  Klev.publish_step l hinv batch

/-- Every live message is below the next offset (so a newly assigned offset is fresh among the
live ones), offsets strictly increase. -/
theorem live_below_next (l : Log) (hinv : Inv l) : ∀ m ∈ (abs l).live, 0 ≤ m.off ∧ m.off < (abs l).next := by
  intro m hm
  exact ⟨hinv.shape.rec_nonneg hm, hinv.shape.lt_next hm⟩

end Klev.C02

/-! ### Non-vacuity: the theorems at the witness log `Witness.wL` (four segments, a hole, a
deleted tail; `Klev/Proofs/Witness.lean`) -/
section NonVacuity
open Klev Klev.Witness

-- the whole witness history from the empty log, and a continuation that deletes the newest
-- message and then everything before publishing again
example := Klev.C02.never_reused l0 l0_inv ops
example := Klev.C02.never_reused wL wL_inv
  [.delete [8], .publish [(60, [9], [9])], .delete [0, 1], .reopen [] none true oo, .publish [(61, [], [])]]
example := Klev.C02.next_monotone wL wL_inv (.delete [8])
example := Klev.C02.publish_offsets wL wL_inv [(60, [9], [9]), (61, [], [])]
example := Klev.C02.live_below_next wL wL_inv

-- evaluated: offsets 3 and 7 were assigned, deleted, and are never assigned again
example : assigned l0 ops = [0, 1, 2, 3, 4, 5, 6, 7, 8] := by decide
example : assigned wL [.delete [8], .publish [(60, [9], [9])], .delete [0, 1],
    .reopen [] none true oo, .publish [(61, [], [])]] = [9, 10] := by decide
example : (abs (stepOp wL (.delete [8]))).live.map (·.off) = [0, 1, 2, 4, 5, 6] ∧
    (abs (stepOp wL (.delete [8]))).next = 9 := by decide
example : (wL.publish [(60, [9], [9]), (61, [], [])]).2 = .ok 11 := by decide

end NonVacuity

#print axioms Klev.C02.never_reused
#print axioms Klev.C02.next_monotone
#print axioms Klev.C02.publish_offsets
#print axioms Klev.C02.live_below_next
