/-
C02 — Offsets are dense, increasing and never reused.
-/
import Klev.Proofs.Publish
namespace Klev.C02

/-- On every log state satisfying the invariant, with rollover at any size, for every batch
(including the empty one): Publish returns `NextOffset + n`, the new live sequence is the
old one followed by the batch stamped with exactly the offsets `next, next+1, …` in order
(the model's batch carries no caller offset at all: it is ignored), and the invariant
is kept. On a read-only handle nothing changes and `ErrReadonly` is returned. -/
theorem publish_offsets (l : Log) (hinv : Inv l) (batch : List (Int × List UInt8 × List UInt8)) :
    Inv (l.publish batch).1 ∧
    Spec.PublishOK l.opts.readonly (abs l) batch (l.publish batch).2 (abs (l.publish batch).1) :=
  Klev.publish_step l hinv batch

/-- Every live message is below the next offset (so a newly assigned offset is fresh among the
live ones), offsets strictly increase. -/
theorem live_below_next (l : Log) (hinv : Inv l) : ∀ m ∈ (abs l).live, 0 ≤ m.off ∧ m.off < (abs l).next := by
  intro m hm
  exact ⟨hinv.shape.rec_nonneg hm, hinv.shape.lt_next hm⟩

end Klev.C02

#print axioms Klev.C02.publish_offsets
#print axioms Klev.C02.live_below_next
