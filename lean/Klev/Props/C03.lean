/-
C03 — Consume is a gap-free, duplicate-free cursor over the live messages.
Property theorems only (lemmas live in Klev/Proofs).
-/
import Klev.Proofs.IndexSearch
import Klev.Proofs.SearchTie
import Klev.Proofs.SegSearch
import Klev.Proofs.ConsumeOK
import Klev.Proofs.ReadInv
import Klev.Proofs.Witness
namespace Klev.C03

/-- **Refinement.** On every log state satisfying the invariant `Inv` (multi-segment, holes
at segment starts / middles / ends, empty head, indexes loaded or not), for every offset
and every `maxCount ≥ 1`, the mechanism `Log.consume` — segment selection by binary search,
in-segment lower bound through the index, range read through the record positions,
hand-off to the next segment after the end of a reader segment, caught-up handling in the
head — returns a result the L0 relation `ConsumeOK` allows: at most `maxCount` messages
forming a prefix of the live messages at or after the offset, next = last + 1; when
nothing is returned the next offset steps over no live message and equals `NextOffset`
when caught up; progress; `OffsetNewest` returns `(NextOffset, [])`; beyond `NextOffset`
fails with `ErrInvalidOffset`. -/
theorem consume_ok (l : Log) (hinv : Inv l) (off : Int) (mc : Nat) (hmc : 1 ≤ mc) :
    Spec.ConsumeOK (abs l) off mc (l.consume off mc).2 :=
  Klev.consume_ok l hinv off mc hmc

/-- Consume is a read: it keeps the invariant and the L0 state (it may load indexes). -/
theorem consume_inv (l : Log) (hinv : Inv l) (off : Int) (mc : Nat) :
    Inv (l.consume off mc).1 ∧ abs (l.consume off mc).1 = abs l :=
  Klev.consume_inv l hinv off mc

/-- (i) The in-segment search of `index.Consume`, for every sorted index and every offset:
the position of the first item whose offset is not below the requested one (and of the
last item), `afterEnd` beyond the last, `empty` on no items. -/
theorem index_consume_spec (items : List Item) (off : Int) (hs : SortedOff items) :
    Index.consume items off = Index.consumeSpec items off :=
  Index.consume_eq_spec items off hs

/-- (ii) Segment selection of `segment.Consume`: the last segment whose base is not above
the offset … -/
theorem segment_consume_spec (bases : List Int) (off : Int) (hs : SortedB bases)
    (hne : bases ≠ []) (h1 : off ≠ offsetOldest) (h2 : off ≠ offsetNewest)
    (hf : ∀ h : 0 < bases.length, bases[0] < off) :
    ∃ i : Nat, SegSearch.consume bases off = .ok (i : Int) ∧ IsSegFor bases off i :=
  SegSearch.consume_spec bases off hs hne h1 h2 hf

/-- … and the first segment for `OffsetOldest` or an offset not above the first base. -/
theorem segment_consume_first (bases : List Int) (off : Int) (hne : bases ≠ [])
    (h : off = offsetOldest ∨ (off ≠ offsetNewest ∧ ∀ h : 0 < bases.length, off ≤ bases[0])) :
    SegSearch.consume bases off = .ok 0 :=
  SegSearch.consume_first bases off hne h

-- non-vacuity: a concrete sorted index meets the hypotheses and the loop is exercised
example : SortedOff [⟨1, 8, 0, 0⟩, ⟨3, 50, 0, 0⟩, ⟨5, 90, 0, 0⟩, ⟨9, 130, 0, 0⟩] := by
  simp [SortedOff]
example : Index.consume [⟨1, 8, 0, 0⟩, ⟨3, 50, 0, 0⟩, ⟨5, 90, 0, 0⟩, ⟨9, 130, 0, 0⟩] 4 = .ok (90, 130) := by
  decide
example : SegSearch.consume [0, 10, 20, 30] 15 = .ok 1 := by decide

/-- **Regenerated tie (T4).** The search loops the theorems above are about *are* the loops of the
current source: `Klev/Gen/Search.lean` is translated statement by statement from
`pkg/index/offset.go` and `pkg/segment/index.go` on every run, and the translation equals the
model for every input. -/
theorem search_tie_consume (items : List Item) (bases : List Int) (off : Int) :
    Gen.Search.indexConsume items off = Index.consume items off ∧
    Gen.Search.segConsume bases off = SegSearch.consume bases off :=
  ⟨Klev.indexConsume_tie items off, Klev.segConsume_tie bases off⟩

end Klev.C03

/-! ### Non-vacuity: the theorems at the witness log `Witness.wL`, its derived index
`Witness.wIdx` (offsets 0 1 2 4 5 6 8) and its segment bases `[0, 2, 5, 8]` -/
section NonVacuity
open Klev Klev.Witness

example := Klev.C03.consume_ok wL wL_inv 3 2 (by decide)
example := Klev.C03.consume_ok wL wL_inv offsetOldest 1 (by decide)
example := Klev.C03.consume_ok wL wL_inv 9 5 (by decide)
example := Klev.C03.consume_inv wL wL_inv 7 4
example := Klev.C03.index_consume_spec wIdx 3 wIdx_sortedOff
example := Klev.C03.segment_consume_spec (bases wL) 4 wL_bases_sorted (by decide) (by decide) (by decide)
  (by decide)
example := Klev.C03.segment_consume_first (bases wL) offsetOldest (by decide) (Or.inl rfl)
example := Klev.C03.segment_consume_first (bases wL) 0 (by decide) (Or.inr (by decide))

-- evaluated: from the hole at 3 the cursor lands on 4; from the deleted tail 7 it hands off to
-- the next segment; at NextOffset it is caught up; beyond it fails
example : (wL.consume 3 2).2 = .ok (5, [⟨4, 30, [6], []⟩]) := by decide
example : (wL.consume 7 4).2 = .ok (9, [⟨8, 50, [2], [8]⟩]) := by decide
example : (wL.consume offsetOldest 1).2 = .ok (1, [⟨0, 10, [1], [1]⟩]) := by decide
example : (wL.consume 9 5).2 = .ok (9, []) ∧ (wL.consume offsetNewest 5).2 = .ok (9, []) ∧
    (wL.consume 10 5).2 = .err .invalidOffset := by decide
example : Index.consume wIdx 3 = .ok (122, 235) ∧ Index.consume wIdx 9 = .error .afterEnd := by decide
example : SegSearch.consume (bases wL) 4 = .ok 1 ∧ SegSearch.consume (bases wL) 7 = .ok 2 := by decide

end NonVacuity

#print axioms Klev.C03.consume_ok
#print axioms Klev.C03.consume_inv
#print axioms Klev.C03.index_consume_spec
#print axioms Klev.C03.segment_consume_spec
#print axioms Klev.C03.segment_consume_first
#print axioms Klev.C03.search_tie_consume
