/-
C03 — Consume is a gap-free, duplicate-free cursor over the live messages.
Property theorems only (lemmas live in Klev/Proofs).
-/
import Klev.Proofs.IndexSearch
import Klev.Proofs.SegSearch
namespace Klev.C03

/-- (i) The in-segment search of `index.Consume`, for every sorted index and every offset:
the position of the first item whose offset is not below the requested one (and of the
last item), `afterEnd` beyond the last, `empty` on no items. -/
theorem index_consume_spec (items : List Item) (off : Int) (hs : SortedOff items) :
    Index.consume items off = Index.consumeSpec items off :=
  Index.consume_eq_spec items off hs

/-- (ii) Segment selection of `segment.Consume`: the last segment whose base is not above
the offset … -/
theorem segment_consume_spec (bases : List Int) (off : Int) (hs : SortedB bases)
    (hne : bases ≠ []) (h1 : off ≠ offsetOldest) (h2 : off ≠ offsetNewest)
    (hf : ∀ h : 0 < bases.length, bases[0] < off) :
    ∃ i : Nat, SegSearch.consume bases off = .ok (i : Int) ∧ IsSegFor bases off i :=
  SegSearch.consume_spec bases off hs hne h1 h2 hf

/-- … and the first segment for `OffsetOldest` or an offset not above the first base. -/
theorem segment_consume_first (bases : List Int) (off : Int) (hne : bases ≠ [])
    (h : off = offsetOldest ∨ (off ≠ offsetNewest ∧ ∀ h : 0 < bases.length, off ≤ bases[0])) :
    SegSearch.consume bases off = .ok 0 :=
  SegSearch.consume_first bases off hne h

-- non-vacuity: a concrete sorted index meets the hypotheses and the loop is exercised
example : SortedOff [⟨1, 8, 0, 0⟩, ⟨3, 50, 0, 0⟩, ⟨5, 90, 0, 0⟩, ⟨9, 130, 0, 0⟩] := by
  simp [SortedOff]
example : Index.consume [⟨1, 8, 0, 0⟩, ⟨3, 50, 0, 0⟩, ⟨5, 90, 0, 0⟩, ⟨9, 130, 0, 0⟩] 4 = .ok (90, 130) := by
  decide
example : SegSearch.consume [0, 10, 20, 30] 15 = .ok 1 := by decide

end Klev.C03

#print axioms Klev.C03.index_consume_spec
#print axioms Klev.C03.segment_consume_spec
#print axioms Klev.C03.segment_consume_first
