/-
C04 — Get returns exactly the addressed message, with a stable error taxonomy.
-/
import Klev.Proofs.IndexSearch
import Klev.Proofs.SearchTie
import Klev.Proofs.SegSearch
import Klev.Proofs.GetOK
import Klev.Proofs.Witness
namespace Klev.C04

/-- **Refinement.** On every log state satisfying the invariant, for every offset, `Log.get`
returns what the L0 relation `GetOK` says: the live message with exactly that offset;
`ErrNotFound` for an assigned offset whose message is gone (hole at a segment start, in the
middle, deleted tail of a reader segment, before the first segment); `ErrInvalidOffset`
for an offset not assigned yet; `OffsetOldest` / `OffsetNewest` the first / last live
message (also when the head segment is empty), `ErrInvalidOffset` on an empty log; other
negative offsets fail. -/
theorem get_ok (l : Log) (hinv : Inv l) (off : Int) :
    Spec.GetOK (abs l) off (l.get off).2 :=
  Klev.get_ok l hinv off

/-- The exact-match search of `index.Get`, for every sorted index and every offset. -/
theorem index_get_spec (items : List Item) (off : Int) (hs : SortedOff items) :
    Index.get items off = Index.getSpec items off :=
  Index.get_eq_spec items off hs

/-- Segment selection for point lookups, with the before-start classification. -/
theorem segment_get_spec (bases : List Int) (off : Int) (hs : SortedB bases)
    (hne : bases ≠ []) (h1 : off ≠ offsetOldest) (h2 : off ≠ offsetNewest) :
    (∃ h0 : 0 < bases.length, off < bases[0] ∧
        SegSearch.get bases off = .ok (.error (if bases[0] = 0 then .relative else .beforeStart))) ∨
    (∃ i : Nat, SegSearch.get bases off = .ok (.ok (i : Int)) ∧ IsSegFor bases off i) :=
  SegSearch.get_spec bases off hs hne h1 h2

example : Index.get [⟨1, 8, 0, 0⟩, ⟨3, 50, 0, 0⟩, ⟨5, 90, 0, 0⟩, ⟨9, 130, 0, 0⟩] 5 = .ok 90 := by decide
example : Index.get [⟨1, 8, 0, 0⟩, ⟨3, 50, 0, 0⟩, ⟨5, 90, 0, 0⟩, ⟨9, 130, 0, 0⟩] 4 = .error .notFound := by decide

/-- **Regenerated tie (T4).** `index.Get` and `segment.Get` of the current source, translated
statement by statement on every run, equal the model functions for every input. -/
theorem search_tie_get (items : List Item) (bases : List Int) (off : Int) :
    Gen.Search.indexGet items off = Index.get items off ∧
    Gen.Search.segGet bases off = SegSearch.get bases off :=
  ⟨Klev.indexGet_tie items off, Klev.segGet_tie bases off⟩

end Klev.C04

/-! ### Non-vacuity: the theorems at the witness log `Witness.wL`, its derived index
`Witness.wIdx` (offsets 0 1 2 4 5 6 8) and its segment bases `[0, 2, 5, 8]` -/
section NonVacuity
open Klev Klev.Witness

example := Klev.C04.get_ok wL wL_inv 4
example := Klev.C04.get_ok wL wL_inv 3
example := Klev.C04.get_ok wL wL_inv offsetNewest
example := Klev.C04.index_get_spec wIdx 5 wIdx_sortedOff
example := Klev.C04.segment_get_spec (bases wL) 6 wL_bases_sorted (by decide) (by decide) (by decide)

-- evaluated: a live message; the hole inside segment 2; the deleted tail of segment 5; not
-- assigned yet; the two relative offsets; another negative offset
example : (wL.get 4).2 = .ok ⟨4, 30, [6], []⟩ ∧ (wL.get 3).2 = .err .notFound ∧
    (wL.get 7).2 = .err .notFound ∧ (wL.get 9).2 = .err .invalidOffset ∧
    (wL.get offsetOldest).2 = .ok ⟨0, 10, [1], [1]⟩ ∧ (wL.get offsetNewest).2 = .ok ⟨8, 50, [2], [8]⟩ ∧
    (wL.get (-5)).2 = .err .invalidOffset := by decide
example : Index.get wIdx 5 = .ok 159 ∧ Index.get wIdx 3 = .error .notFound := by decide
example : SegSearch.get (bases wL) 6 = .ok (.ok 2) := by decide

end NonVacuity

#print axioms Klev.C04.get_ok
#print axioms Klev.C04.index_get_spec
#print axioms Klev.C04.segment_get_spec
#print axioms Klev.C04.search_tie_get
