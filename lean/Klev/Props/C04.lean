/-
C04 — Get returns exactly the addressed message, with a stable error taxonomy.
-/
import Klev.Proofs.IndexSearch
import Klev.Proofs.SegSearch
namespace Klev.C04

/-- The exact-match search of `index.Get`, for every sorted index and every offset. -/
theorem index_get_spec (items : List Item) (off : Int) (hs : SortedOff items) :
    Index.get items off = Index.getSpec items off :=
  Index.get_eq_spec items off hs

/-- Segment selection for point lookups, with the before-start classification. -/
theorem segment_get_spec (bases : List Int) (off : Int) (hs : SortedB bases)
    (hne : bases ≠ []) (h1 : off ≠ offsetOldest) (h2 : off ≠ offsetNewest) :
    (∃ h0 : 0 < bases.length, off < bases[0] ∧
        SegSearch.get bases off = .ok (.error (if bases[0] = 0 then .relative else .beforeStart))) ∨
    (∃ i : Nat, SegSearch.get bases off = .ok (.ok (i : Int)) ∧ IsSegFor bases off i) :=
  SegSearch.get_spec bases off hs hne h1 h2

example : Index.get [⟨1, 8, 0, 0⟩, ⟨3, 50, 0, 0⟩, ⟨5, 90, 0, 0⟩, ⟨9, 130, 0, 0⟩] 5 = .ok 90 := by decide
example : Index.get [⟨1, 8, 0, 0⟩, ⟨3, 50, 0, 0⟩, ⟨5, 90, 0, 0⟩, ⟨9, 130, 0, 0⟩] 4 = .error .notFound := by decide

end Klev.C04

#print axioms Klev.C04.index_get_spec
#print axioms Klev.C04.segment_get_spec
