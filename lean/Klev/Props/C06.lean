/-
C06 — Everything below the offset returned by Sync survives losing unsynced data.

Under the tail-loss fault model every file is cut back to a length between its fsynced
length and its current length. Sealed segments and renamed-in files are fully fsynced
before the step that makes them visible (structural facts below), so only the head's files
can lose a tail; the head log then is "valid records ++ a strict prefix of a record" and the
index is arbitrary — exactly the situation of the recovery theorems of C05. The
directory-level statement over all workloads is decided by the loss-image correspondence.
-/
import Klev.Proofs.RecoverCheck
import Klev.Proofs.TornAppend
import Klev.Proofs.LossProofs
import Klev.Gen.Facts
import Klev.Proofs.Witness
import Klev.Proofs.WitnessBytes
namespace Klev.C06

/-- Sync fsyncs the log and then the index of the head, and does so in one critical section of
the writer lock together with the reading of the offset it reports (so the offset acknowledged is
one the fsync covered, whatever publishes run concurrently); the old head is fsynced before a new
segment is created; rewritten / recovered / migrated files are fsynced before rename. -/
theorem source_facts :
    Gen.syncLogThenIndex = true ∧ Gen.syncUnderWriterLock = true ∧ Gen.rolloverSyncsOldHead = true ∧
    Gen.syncBeforeRename = true := by
  decide

/-- The records that were fsynced (a prefix `ms` of the head's records) survive whatever
tail is lost behind them and whatever is left of the index. -/
theorem synced_prefix_survives_partial (p : Params) (base : Int) (ms : List Msg) (tail : List UInt8)
    (idx : Option (List UInt8)) (h : ∀ m ∈ ms, m.Encodable)
    (hno : ∀ m n, dec .v2 (render .v2 ms ++ tail) (render .v2 ms).length ≠ .ok m n) :
    ∃ f', Seg.recover p ⟨base, render .v2 ms ++ tail, idx⟩ = .ok f' ∧ f'.log = render .v2 ms :=
  ⟨_, Klev.recover_eq p base ms tail idx h hno, rfl⟩

/-- Tail loss inside the unsynced batch: with `ms` fsynced and any `c` bytes of the later batch
`bs` surviving, recovery keeps all of `ms` (everything below the offset Sync returned) and a
prefix of `bs`. -/
theorem synced_survive_batch_loss (p : Params) (base : Int) (ms bs : List Msg)
    (idx : Option (List UInt8)) (hms : ∀ x ∈ ms, x.Encodable) (hbs : ∀ x ∈ bs, x.Encodable)
    (c : Nat) (hc : c ≤ (encAll .v2 bs).length) :
    ∃ k f', Seg.recover p ⟨base, (render .v2 ms ++ encAll .v2 bs).take ((render .v2 ms).length + c), idx⟩ = .ok f' ∧
      f'.log = render .v2 (ms ++ bs.take k) := by
  obtain ⟨k, _, _, _, h⟩ := Klev.torn_batch_recovers p base ms bs idx hms hbs c hc
  exact ⟨k, _, h, rfl⟩

/-! ### record level: losing the unsynced tail of the head (Klev/Loss.lean)

Sealed segments are fsynced at rollover and rewritten files before they are renamed in (the
regenerated facts above; the loss profile also checks on every image that only the head's files
had an unsynced tail), so a power loss cuts the head log back to some number `j` of whole records
and leaves the head index in any state. -/

open Klev.Loss in
/-- Whatever tail of the head log is lost and whatever is left of the head index, Open with Recover
succeeds, the log satisfies the invariant, holds exactly the messages that were not lost, and its next
offset is the one after the last surviving record. -/
theorem loss_recovers (l : Log) (hinv : Inv l) (j : Nat) (idx : Option IdxFile)
    (oo : OpenOpts) (hro : oo.opts.readonly = false) (hrec : oo.recover = true) :
    ∃ l', Log.open (lossState l j idx) oo = .ok l' ∧ Inv l' ∧
      (abs l').live = keptLive l j ∧ (abs l').next = ackAfter l j :=
  Klev.Loss.loss_recovers l hinv j idx oo hro hrec

open Klev.Loss in
/-- **The property**: if Sync acknowledged when the head held `n` records and at least those survive
(`n ≤ j`: fsynced data is not lost), every live message below the acknowledged offset survives, NextOffset
is not below it, and what survives is a prefix of what was there. -/
theorem synced_survive (l : Log) (hinv : Inv l) (n j : Nat) (hnj : n ≤ j) (idx : Option IdxFile)
    (oo : OpenOpts) (hro : oo.opts.readonly = false) (hrec : oo.recover = true) :
    ∃ l', Log.open (lossState l j idx) oo = .ok l' ∧ Inv l' ∧
      (∀ m ∈ (abs l).live, m.off < ackAfter l n → m ∈ (abs l').live) ∧
      ackAfter l n ≤ (abs l').next ∧
      (abs l').live <+: (abs l).live :=
  Klev.Loss.synced_survive l hinv n j hnj idx oo hro hrec

end Klev.C06

/-! ### Non-vacuity

Byte level: the messages `Witness.wMs` / `Witness.wBs`. Record level: the witness log
`Witness.wL` after one more publish of two messages, so that its head (base 8) holds three
records `[8, 9, 10]` (46 + 38 + 36 bytes: no rollover before the batch). -/
section NonVacuity
open Klev Klev.Witness Klev.Loss

example := Klev.C06.synced_prefix_survives_partial ⟨true, true⟩ 0 wMs [0, 0, 0] (some [1, 2, 3]) wMs_enc
  (Klev.hno_short wMs [0, 0, 0] (by decide))
example := Klev.C06.synced_survive_batch_loss ⟨true, true⟩ 0 wMs wBs none wMs_enc wBs_enc 50
  (by rw [wBs_len]; decide)

example := Klev.C06.loss_recovers wL wL_inv 0 none ooRec rfl rfl
example := Klev.C06.loss_recovers (wL.publish [(60, [9], [9]), (61, [], [])]).1
  (Klev.publish_step wL wL_inv _).1 1 (some ⟨.v2, []⟩) ooRec rfl rfl
example := Klev.C06.synced_survive (wL.publish [(60, [9], [9]), (61, [], [])]).1
  (Klev.publish_step wL wL_inv _).1 1 2 (by decide) none ooRec rfl rfl

-- evaluated: what Sync acknowledged at 0, 1, 2, 3 records in the head; what Open(Recover) makes
-- of the directory when the head log keeps one / two of its three records
example : (List.range 4).map (ackAfter (wL.publish [(60, [9], [9]), (61, [], [])]).1) = [8, 9, 10, 11] := by
  decide
example : openContent (lossState (wL.publish [(60, [9], [9]), (61, [], [])]).1 1 none) ooRec =
    some ([0, 1, 2, 4, 5, 6, 8], 9) := by decide
example : openContent (lossState (wL.publish [(60, [9], [9]), (61, [], [])]).1 2 (some ⟨.v2, []⟩)) ooRec =
    some ([0, 1, 2, 4, 5, 6, 8, 9], 10) := by decide
example : openContent (lossState wL 0 none) ooRec = some ([0, 1, 2, 4, 5, 6], 8) := by decide

end NonVacuity

#print axioms Klev.C06.source_facts
#print axioms Klev.C06.synced_prefix_survives_partial
#print axioms Klev.C06.synced_survive_batch_loss
#print axioms Klev.C06.loss_recovers
#print axioms Klev.C06.synced_survive
