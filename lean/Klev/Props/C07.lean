/-
C07 — Recover keeps exactly the valid prefix; Check accepts exactly the clean segments.
-/
import Klev.Proofs.ScanProofs
import Klev.Proofs.SegBytesProofs
namespace Klev.C07

/-- The record scan shared by Check / Recover / Reindex / Rewrite / Migrate, on a file that
is any sequence of valid records followed by *anything* that does not itself parse as a
record at that position (truncation at any byte, zero fill, bit flips, garbage): it
returns exactly the valid records at exactly their positions, stops at the end of the
last valid record, and reports a clean end iff nothing follows; otherwise the corruption
class the decoder reports there. Greedy = longest, because records are self-delimiting. -/
theorem scan_valid_prefix (v : Ver) (ms : List Msg) (junk : List UInt8) (h : ∀ m ∈ ms, m.Encodable)
    (hno : ∀ m n, dec v (render v ms ++ junk) (render v ms).length ≠ .ok m n) :
    (scan v (render v ms ++ junk)).recs.map (·.2) = ms ∧
    (scan v (render v ms ++ junk)).recs.map (fun pm => ((pm.1 : Int), pm.2)) = layout v ms ∧
    (scan v (render v ms ++ junk)).stop = (render v ms).length ∧
    ((scan v (render v ms ++ junk)).fin = .clean ↔ junk = []) ∧
    (junk ≠ [] → ∃ e, (scan v (render v ms ++ junk)).fin = .corrupt e ∧
      dec v (render v ms ++ junk) (render v ms).length = .bad e) :=
  Klev.scan_prefix_layout v ms junk h hno

/-- A tail shorter than a record header (a torn header write) is corruption, never a clean
end — with no side condition on what the fragment contains. -/
theorem short_tail_is_corruption (v : Ver) (ms : List Msg) (junk : List UInt8)
    (h : ∀ m ∈ ms, m.Encodable) (hj0 : junk ≠ []) (hj : junk.length < 28) :
    (scan v (render v ms ++ junk)).recs.map (·.2) = ms ∧
    (scan v (render v ms ++ junk)).stop = (render v ms).length ∧
    (scan v (render v ms ++ junk)).fin = .corrupt .shortHeader :=
  Klev.scan_prefix_short v ms junk h hj0 hj

/-- Recover is a byte-for-byte no-op (log and index) on every segment Check accepts. -/
theorem recover_noop_on_clean (p : Params) (f : SegFiles) (h : Seg.check p f = .ok ()) :
    Seg.recover p f = .ok f :=
  Klev.recover_noop_of_check p f h

end Klev.C07

#print axioms Klev.C07.scan_valid_prefix
#print axioms Klev.C07.short_tail_is_corruption
#print axioms Klev.C07.recover_noop_on_clean
