/-
C07 — Recover keeps exactly the valid prefix; Check accepts exactly the clean segments.
-/
import Klev.Proofs.ScanProofs
import Klev.Proofs.SegBytesProofs
import Klev.Proofs.RecoverCheck
import Klev.Proofs.TornAppend
import Klev.Proofs.WitnessBytes
namespace Klev.C07

/-- The record scan shared by Check / Recover / Reindex / Rewrite / Migrate, on a file that
is any sequence of valid records followed by *anything* that does not itself parse as a
record at that position (truncation at any byte, zero fill, bit flips, garbage): it
returns exactly the valid records at exactly their positions, stops at the end of the
last valid record, and reports a clean end iff nothing follows; otherwise the corruption
class the decoder reports there. Greedy = longest, because records are self-delimiting. -/
theorem scan_valid_prefix (v : Ver) (ms : List Msg) (junk : List UInt8) (h : ∀ m ∈ ms, m.Encodable)
    (hno : ∀ m n, dec v (render v ms ++ junk) (render v ms).length ≠ .ok m n) :
    (scan v (render v ms ++ junk)).recs.map (·.2) = ms ∧
    (scan v (render v ms ++ junk)).recs.map (fun pm => ((pm.1 : Int), pm.2)) = layout v ms ∧
    (scan v (render v ms ++ junk)).stop = (render v ms).length ∧
    ((scan v (render v ms ++ junk)).fin = .clean ↔ junk = []) ∧
    (junk ≠ [] → ∃ e, (scan v (render v ms ++ junk)).fin = .corrupt e ∧
      dec v (render v ms ++ junk) (render v ms).length = .bad e) :=
  Klev.scan_prefix_layout v ms junk h hno

/-- A tail shorter than a record header (a torn header write) is corruption, never a clean
end — with no side condition on what the fragment contains. -/
theorem short_tail_is_corruption (v : Ver) (ms : List Msg) (junk : List UInt8)
    (h : ∀ m ∈ ms, m.Encodable) (hj0 : junk ≠ []) (hj : junk.length < 28) :
    (scan v (render v ms ++ junk)).recs.map (·.2) = ms ∧
    (scan v (render v ms ++ junk)).stop = (render v ms).length ∧
    (scan v (render v ms ++ junk)).fin = .corrupt .shortHeader :=
  Klev.scan_prefix_short v ms junk h hj0 hj

/-- Recover is a byte-for-byte no-op (log and index) on every segment Check accepts. -/
theorem recover_noop_on_clean (p : Params) (f : SegFiles) (h : Seg.check p f = .ok ()) :
    Seg.recover p f = .ok f :=
  Klev.recover_noop_of_check p f h

/-! ### The side condition `hno` in the two cases where it is automatic -/

/-- Nothing behind the records (`junk = []`): the "does not parse as a record there"
hypothesis of the theorems below holds automatically. -/
theorem hno_nil (ms : List Msg) :
    ∀ m n, dec .v2 (render .v2 ms ++ []) (render .v2 ms).length ≠ .ok m n :=
  Klev.hno_nil ms

/-- A tail shorter than a record header (truncation inside a header, any content) never
parses as a record: the hypothesis `hno` holds automatically. -/
theorem hno_short (ms : List Msg) (junk : List UInt8) (hj : junk.length < 28) :
    ∀ m n, dec .v2 (render .v2 ms ++ junk) (render .v2 ms).length ≠ .ok m n :=
  Klev.hno_short ms junk hj

/-- A strict prefix of an encoded record at the end of a file (truncation at *any* byte of
the record, either log version) never parses as a record: the hypothesis `hno` holds for
every truncation. -/
theorem hno_truncated_record (v : Ver) (pre : List UInt8) (m : Msg) (h : m.Encodable) (j : Nat)
    (hj : j < (enc v m).length) :
    ∀ m' n, dec v (pre ++ (enc v m).take j) pre.length ≠ .ok m' n :=
  Klev.torn_record_not_parsed v pre m h j hj

/-! ### Clause "Recover leaves precisely the longest prefix of valid records, with a matching index" -/

/-- Recover on a V2 head segment whose log is valid records followed by anything that does
not parse as a record there, and whose index file is anything at all (missing, truncated,
changed, extra items): it succeeds, keeps the base, and the log file it leaves is *exactly*
the rendering of the valid records — nothing more, nothing less. -/
theorem recover_log (p : Params) (base : Int) (ms : List Msg) (junk : List UInt8)
    (idx : Option (List UInt8)) (h : ∀ m ∈ ms, m.Encodable)
    (hno : ∀ m n, dec .v2 (render .v2 ms ++ junk) (render .v2 ms).length ≠ .ok m n) :
    ∃ f', Seg.recover p ⟨base, render .v2 ms ++ junk, idx⟩ = .ok f' ∧ f'.base = base ∧
      f'.log = render .v2 ms :=
  Klev.recover_log p base ms junk idx h hno

/-- Closed form of Recover, log *and* index, for every index configuration `p` and every
index damage: the log is the valid prefix; the index file is left missing if it was missing
or unparseable, left byte-for-byte alone if its items are the derived ones, and otherwise
rewritten (in its own version) with the index derived from the valid prefix
(`Klev.recoveredIdx`). -/
theorem recover_eq (p : Params) (base : Int) (ms : List Msg) (junk : List UInt8)
    (idx : Option (List UInt8)) (h : ∀ m ∈ ms, m.Encodable)
    (hno : ∀ m n, dec .v2 (render .v2 ms ++ junk) (render .v2 ms).length ≠ .ok m n) :
    Seg.recover p ⟨base, render .v2 ms ++ junk, idx⟩ =
      .ok ⟨base, render .v2 ms, recoveredIdx p base (derive p .v2 ms) idx⟩ :=
  Klev.recover_eq p base ms junk idx h hno

/-- Recover of a head log truncated at every byte `j` of its last record (0 ≤ j ≤ length):
the old records, plus the last one exactly when all of it is in the file. -/
theorem recover_truncated (p : Params) (base : Int) (ms : List Msg) (m : Msg)
    (idx : Option (List UInt8)) (hms : ∀ x ∈ ms, x.Encodable) (hm : m.Encodable) (j : Nat)
    (hj : j ≤ (enc .v2 m).length) :
    Seg.recover p ⟨base, render .v2 ms ++ (enc .v2 m).take j, idx⟩ =
      let ms' := if j = (enc .v2 m).length then ms ++ [m] else ms
      .ok ⟨base, render .v2 ms', recoveredIdx p base (derive p .v2 ms') idx⟩ :=
  Klev.append_cut_recovers p base ms m idx hms hm j hj

/-! ### Clause "Check succeeds iff the log parses completely and the index, if present, equals the derived index" -/

/-- Check, on valid records followed by a non-record and any index file: it succeeds
**iff** nothing follows the records and the index file is either absent or parses to
exactly the items derived from the log. -/
theorem check_iff (p : Params) (base : Int) (ms : List Msg) (junk : List UInt8)
    (idx : Option (List UInt8)) (h : ∀ m ∈ ms, m.Encodable)
    (hno : ∀ m n, dec .v2 (render .v2 ms ++ junk) (render .v2 ms).length ≠ .ok m n) :
    Seg.check p ⟨base, render .v2 ms ++ junk, idx⟩ = .ok () ↔
      junk = [] ∧ (idx = none ∨ ∃ ib iv items, idx = some ib ∧
        parseIdx p ib base = .ok (iv, items) ∧
        items = deriveScan p (scan .v2 (render .v2 ms)).recs) :=
  Klev.check_iff p base ms junk idx h hno

/-- The same for an undamaged log, with the derived index written as the model's `derive`:
Check succeeds iff the index file is absent or holds exactly `derive p .v2 ms`. -/
theorem check_clean_iff (p : Params) (base : Int) (ms : List Msg) (idx : Option (List UInt8))
    (h : ∀ m ∈ ms, m.Encodable) :
    Seg.check p ⟨base, render .v2 ms, idx⟩ = .ok () ↔
      (idx = none ∨ ∃ ib iv items, idx = some ib ∧ parseIdx p ib base = .ok (iv, items) ∧
        items = derive p .v2 ms) :=
  Klev.check_clean_iff p base ms idx h

/-- Check accepts every cleanly written segment that has no index file. -/
theorem check_clean_noidx (p : Params) (base : Int) (ms : List Msg) (h : ∀ m ∈ ms, m.Encodable) :
    Seg.check p ⟨base, render .v2 ms, none⟩ = .ok () :=
  Klev.check_clean_noidx p base ms h

/-- Check accepts every cleanly written segment whose index file (of either version, for all
four index configurations) holds the derived items. -/
theorem check_clean (p : Params) (base : Int) (ms : List Msg) (iv : Ver)
    (h : ∀ m ∈ ms, m.Encodable) (hsize : (render .v2 ms).length < two63)
    (hv1 : iv = .v1 → 0 ≤ base ∧ ∀ m ∈ ms.head?, m.off = base) :
    Seg.check p ⟨base, render .v2 ms,
      some (renderIdx p iv (deriveScan p (scan .v2 (render .v2 ms)).recs))⟩ = .ok () :=
  Klev.check_clean p base ms iv h hsize hv1

/-! ### Clause "after Recover, Check succeeds" -/

/-- After Recover — whatever followed the valid records and whatever the index file held —
Check succeeds on the files Recover left. -/
theorem check_after_recover (p : Params) (base : Int) (ms : List Msg) (junk : List UInt8)
    (idx : Option (List UInt8)) (h : ∀ m ∈ ms, m.Encodable)
    (hno : ∀ m n, dec .v2 (render .v2 ms ++ junk) (render .v2 ms).length ≠ .ok m n)
    (hsize : (render .v2 ms).length < two63)
    (hbase : 0 ≤ base) (hfirst : ∀ m ∈ ms.head?, m.off = base) :
    ∀ f', Seg.recover p ⟨base, render .v2 ms ++ junk, idx⟩ = .ok f' → Seg.check p f' = .ok () :=
  Klev.check_after_recover p base ms junk idx h hno hsize hbase hfirst

/-- Recover is idempotent: a second Recover on what the first one left is a byte-for-byte
no-op (consequence of `check_after_recover` and `recover_noop_on_clean`), for every tail
and every index damage. -/
theorem recover_idempotent (p : Params) (base : Int) (ms : List Msg) (junk : List UInt8)
    (idx : Option (List UInt8)) (h : ∀ m ∈ ms, m.Encodable)
    (hno : ∀ m n, dec .v2 (render .v2 ms ++ junk) (render .v2 ms).length ≠ .ok m n)
    (hsize : (render .v2 ms).length < two63)
    (hbase : 0 ≤ base) (hfirst : ∀ m ∈ ms.head?, m.off = base) :
    ∀ f', Seg.recover p ⟨base, render .v2 ms ++ junk, idx⟩ = .ok f' →
      Seg.recover p f' = .ok f' := fun f' hf =>
  Klev.recover_noop_of_check p f'
    (Klev.check_after_recover p base ms junk idx h hno hsize hbase hfirst f' hf)

/-- The instance for a log truncated at any byte inside its last record: Recover on the
result of Recover changes nothing. -/
theorem recover_idempotent_on_result' (p : Params) (base : Int) (ms : List Msg) (m : Msg)
    (idx : Option (List UInt8)) (hms : ∀ x ∈ ms, x.Encodable) (hm : m.Encodable) (j : Nat)
    (hj : j < (enc .v2 m).length) (hsize : (render .v2 ms).length < two63) (hbase : 0 ≤ base)
    (hfirst : ∀ x ∈ ms.head?, x.off = base) :
    ∀ f', Seg.recover p ⟨base, render .v2 ms ++ (enc .v2 m).take j, idx⟩ = .ok f' →
      Seg.recover p f' = .ok f' :=
  Klev.recover_idempotent_on_result' p base ms m idx hms hm j hj hsize hbase hfirst

/-- A log cut at *any* byte `c` of a batch of appended records (so: truncation at every
length at/after the old end): what Recover leaves passes Check, and a second Recover is a
no-op. -/
theorem truncated_batch_check (p : Params) (base : Int) (ms bs : List Msg)
    (idx : Option (List UInt8)) (hms : ∀ x ∈ ms, x.Encodable) (hbs : ∀ x ∈ bs, x.Encodable)
    (c : Nat) (hc : c ≤ (encAll .v2 bs).length)
    (hsize : (render .v2 (ms ++ bs)).length < two63) (hbase : 0 ≤ base)
    (hfirst : ∀ x ∈ (ms ++ bs).head?, x.off = base) :
    ∀ f', Seg.recover p ⟨base,
        (render .v2 ms ++ encAll .v2 bs).take ((render .v2 ms).length + c), idx⟩ = .ok f' →
      Seg.check p f' = .ok () ∧ Seg.recover p f' = .ok f' :=
  Klev.torn_batch_check p base ms bs idx hms hbs c hc hsize hbase hfirst

/-! ### Clause "… and keeps succeeding after further appends" -/

/-- If Check passes on a cleanly written segment with its derived index, it still passes
after more records are appended and the index is the derived one of the longer log. -/
theorem check_stable_append (p : Params) (base : Int) (ms ms2 : List Msg) (iv : Ver)
    (h1 : ∀ m ∈ ms, m.Encodable) (h2 : ∀ m ∈ ms2, m.Encodable)
    (hsize : (render .v2 (ms ++ ms2)).length < two63)
    (hv1 : iv = .v1 → 0 ≤ base ∧ ∀ m ∈ (ms ++ ms2).head?, m.off = base)
    (hc : Seg.check p ⟨base, render .v2 ms,
      some (renderIdx p iv (deriveScan p (scan .v2 (render .v2 ms)).recs))⟩ = .ok ()) :
    Seg.check p ⟨base, render .v2 (ms ++ ms2),
      some (renderIdx p iv (deriveScan p (scan .v2 (render .v2 (ms ++ ms2))).recs))⟩ = .ok () :=
  Klev.check_stable_append p base ms ms2 iv h1 h2 hsize hv1 hc

/-- The same on the bytes a writer actually produces: the log file grows by the encoded
records, the index file by the encoded items of those records, derived from where the file
size and the index time carry stood. Check passes on the grown files. -/
theorem check_stable_append_bytes (p : Params) (base : Int) (ms ms2 : List Msg) (iv : Ver)
    (h1 : ∀ m ∈ ms, m.Encodable) (h2 : ∀ m ∈ ms2, m.Encodable)
    (hsize : (render .v2 (ms ++ ms2)).length < two63)
    (hv1 : iv = .v1 → 0 ≤ base ∧ ∀ m ∈ (ms ++ ms2).head?, m.off = base) :
    Seg.check p ⟨base, render .v2 ms ++ encAll .v2 ms2,
      some (renderIdx p iv (derive p .v2 ms) ++
        (deriveFrom p (tsAfter p 0 (layout .v2 ms))
          (layoutFrom .v2 ((render .v2 ms).length : Int) ms2)).flatMap (encItem p))⟩ = .ok () :=
  Klev.check_stable_append_bytes p base ms ms2 iv h1 h2 hsize hv1

end Klev.C07

/-! ### Non-vacuity

Every theorem above that has hypotheses, instantiated at concrete bytes: the seven messages
`Witness.wMs` (the content of the witness log: repeated key, a value-less message, holes in the
offsets), the batch `Witness.wBs` behind them, the message `Witness.wM`
(`Klev/Proofs/WitnessBytes.lean`); three zero bytes as junk; index files missing, empty, garbage. -/
section NonVacuity
open Klev Klev.Witness

example := Klev.C07.scan_valid_prefix .v2 wMs [0, 0, 0] wMs_enc (Klev.hno_short wMs [0, 0, 0] (by decide))
example := Klev.C07.scan_valid_prefix .v2 wMs [] wMs_enc (Klev.hno_nil wMs)
example := Klev.C07.short_tail_is_corruption .v1 wMs [9] wMs_enc (by decide) (by decide)
example := Klev.C07.recover_noop_on_clean ⟨true, true⟩ ⟨0, render .v2 wMs, none⟩
  (Klev.check_clean_noidx ⟨true, true⟩ 0 wMs wMs_enc)
example := Klev.C07.hno_short wMs [1, 2, 3] (by decide)
example := Klev.C07.hno_truncated_record .v2 (render .v2 wMs) wM wM_enc 38 (by rw [wM_len.1]; decide)
example := Klev.C07.recover_log ⟨true, false⟩ 0 wMs [0, 0, 0] (some [1, 2, 3]) wMs_enc
  (Klev.hno_short wMs [0, 0, 0] (by decide))
example := Klev.C07.recover_eq ⟨false, true⟩ 0 wMs [0, 0, 0] none wMs_enc
  (Klev.hno_short wMs [0, 0, 0] (by decide))
example := Klev.C07.recover_truncated ⟨true, true⟩ 0 wMs wM (some []) wMs_enc wM_enc 20
  (by rw [wM_len.1]; decide)
example := Klev.C07.recover_truncated ⟨true, true⟩ 0 wMs wM (some []) wMs_enc wM_enc 39
  (by rw [wM_len.1]; decide)
example := Klev.C07.check_iff ⟨true, true⟩ 0 wMs [0, 0, 0] none wMs_enc
  (Klev.hno_short wMs [0, 0, 0] (by decide))
example := Klev.C07.check_clean_iff ⟨true, true⟩ 0 wMs (some [1, 2, 3]) wMs_enc
example := Klev.C07.check_clean_noidx ⟨true, true⟩ 0 wMs wMs_enc
example := Klev.C07.check_clean ⟨true, true⟩ 0 wMs .v1 wMs_enc wMs_size (fun _ => ⟨by decide, wMs_first⟩)
example := Klev.C07.check_clean ⟨false, false⟩ 0 wMs .v2 wMs_enc wMs_size (fun h => nomatch h)
example := Klev.C07.check_after_recover ⟨true, true⟩ 0 wMs [0, 0, 0] (some [1, 2, 3]) wMs_enc
  (Klev.hno_short wMs [0, 0, 0] (by decide)) wMs_size (by decide) wMs_first
example := Klev.C07.recover_idempotent ⟨true, true⟩ 0 wMs [0, 0, 0] (some [1, 2, 3]) wMs_enc
  (Klev.hno_short wMs [0, 0, 0] (by decide)) wMs_size (by decide) wMs_first
example := Klev.C07.recover_idempotent_on_result' ⟨true, true⟩ 0 wMs wM none wMs_enc wM_enc 38
  (by rw [wM_len.1]; decide) wMs_size (by decide) wMs_first
example := Klev.C07.truncated_batch_check ⟨true, true⟩ 0 wMs wBs (some []) wMs_enc wBs_enc 50
  (by rw [wBs_len]; decide) wMsBs_size (by decide) wMsBs_first
example := Klev.C07.check_stable_append ⟨true, true⟩ 0 wMs wBs .v1 wMs_enc wBs_enc wMsBs_size
  (fun _ => ⟨by decide, wMsBs_first⟩)
  (Klev.check_clean ⟨true, true⟩ 0 wMs .v1 wMs_enc wMs_size (fun _ => ⟨by decide, wMs_first⟩))
example := Klev.C07.check_stable_append_bytes ⟨true, true⟩ 0 wMs wBs .v1 wMs_enc wBs_enc wMsBs_size
  (fun _ => ⟨by decide, wMsBs_first⟩)

-- evaluated on the bytes (CRC-32C of every record computed by the kernel)
example : (scan .v2 (render .v2 wMs ++ [0, 0, 0])).recs.map (fun pm => (pm.1, pm.2.off)) =
      [(8, 0), (46, 1), (84, 2), (122, 4), (159, 5), (197, 6), (235, 8)] ∧
    (scan .v2 (render .v2 wMs ++ [0, 0, 0])).stop = 273 ∧
    (scan .v2 (render .v2 wMs ++ [0, 0, 0])).fin = .corrupt .shortHeader := by decide +kernel
example : Seg.check ⟨true, true⟩ ⟨0, render .v2 wMs, none⟩ = .ok () ∧
    Seg.check ⟨true, true⟩ ⟨0, render .v2 wMs ++ [0, 0, 0], none⟩ ≠ .ok () := by decide +kernel
example : (Seg.recover ⟨true, true⟩ ⟨0, render .v2 wMs ++ (enc .v2 wM).take 20, none⟩).map (·.log) =
    .ok (render .v2 wMs) := by decide +kernel

end NonVacuity

#print axioms Klev.C07.scan_valid_prefix
#print axioms Klev.C07.short_tail_is_corruption
#print axioms Klev.C07.recover_noop_on_clean
#print axioms Klev.C07.hno_nil
#print axioms Klev.C07.hno_short
#print axioms Klev.C07.hno_truncated_record
#print axioms Klev.C07.recover_log
#print axioms Klev.C07.recover_eq
#print axioms Klev.C07.recover_truncated
#print axioms Klev.C07.check_iff
#print axioms Klev.C07.check_clean_iff
#print axioms Klev.C07.check_clean_noidx
#print axioms Klev.C07.check_clean
#print axioms Klev.C07.check_after_recover
#print axioms Klev.C07.recover_idempotent
#print axioms Klev.C07.recover_idempotent_on_result'
#print axioms Klev.C07.truncated_batch_check
#print axioms Klev.C07.check_stable_append
#print axioms Klev.C07.check_stable_append_bytes
