/-
C08 — Concurrent use is race-free and linearizable.

What is proved here is about the locking discipline (regenerated structural facts) and the
sequential model every window of the correspondence is compared with; the statement over all
schedules of the real code is decided by the schedule correspondence (held calls at every
pause window, free-running histories under the race detector). See DESIGN.md §0.
-/
import Klev.Gen.Facts
namespace Klev.C08

/-- The locking discipline of the current source (go/ast, regenerated on every run): every read
call runs as a whole under the segment-list read lock and touches the list only there; every
access to the writer in Publish/Delete happens with the writer lock held; the rollover swaps
the segment list under the write lock. -/
theorem source_facts :
    Gen.readRegionLocked = true ∧ Gen.writerGuarded = true ∧ Gen.rolloverSwapUnderLock = true := by
  decide

end Klev.C08

#print axioms Klev.C08.source_facts
