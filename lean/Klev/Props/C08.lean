/-
C08 — Concurrent use is race-free and linearizable.

Proved here: (1) the locking discipline of the current source, as regenerated structural
facts; (2) that this discipline — reads atomic under the segment-list read lock, Publish
committing by the head index append under `writerMu`, Delete committing by the swap under
`deleteMu` and the write locks — makes *every* schedule of any number of calls
linearizable: the commit log, read as a sequential run of the specification, returns
exactly what every call returned and ends in exactly the visible state, each call commits
once between its invocation and its response, publishers receive disjoint consecutive
ranges, and a visible message disappears only by a Delete that reports it
(`Klev/Conc.lean`, no bound on threads or steps).

The statement about the real code over real schedules (goroutines, the kernel's page-wise
visibility of writes, the race detector) is decided by the schedule correspondence
(`sched` and `free` profiles). See DESIGN.md §0.5.
-/
import Klev.Gen.Facts
import Klev.Proofs.ConcProofs
import Klev.Proofs.ConcRefines
import Klev.Proofs.HeadReadProofs
import Klev.Proofs.HeadReadModel
namespace Klev.C08
open Klev.Conc

/-- The locking discipline of the current source (go/ast, regenerated on every run, following
the statement structure): every read call runs as a whole under the segment-list read lock and
touches the list only there; every access to the writer in Publish/Delete happens with the
writer lock held (also in NextOffset and Sync, where the fsync and the reported offset share one
critical section); the rollover swaps the segment list under the write lock; ConsumeByKey reads the
head's next offset once and before its keys (the head's index grows under the writer lock, not the
read lock: the order is what makes the two reads one linearizable answer). -/
theorem source_facts :
    Gen.readRegionLocked = true ∧ Gen.writerGuarded = true ∧ Gen.syncUnderWriterLock = true ∧
    Gen.rolloverSwapUnderLock = true ∧ Gen.consumeByKeyNextFirst = true ∧
    Gen.getByTimeRemembersEmptyHead = true := by
  decide

/-- **Linearizability of the lock discipline, for every schedule**: the commit log is a legal
sequential run of the specification (every committed result is the specification's result, every
Delete's choice is requested and live) and it produces exactly the visible state. -/
theorem linearizable (v0 : Vis) (ths : List Th) (h : Fresh ths) (sched : List Nat) :
    LogOK v0 (run (init v0 ths) sched).log ∧
      replay v0 (run (init v0 ths) sched).log = (run (init v0 ths) sched).vis :=
  Klev.Conc.linearizable v0 ths h sched

/-- What a finished call returned is what it committed, exactly once. -/
theorem done_result_in_log (v0 : Vis) (ths : List Th) (h : Fresh ths) (sched : List Nat)
    (i : Nat) (t : Th) (r : Conc.Res)
    (hi : (run (init v0 ths) sched).ths[i]? = some t) (hd : t.phase = .done r) :
    ∃ ch, (i, t.call, ch, r) ∈ (run (init v0 ths) sched).log ∧
      ((run (init v0 ths) sched).log.filter (fun e => e.1 == i)).length = 1 :=
  Klev.Conc.done_result_in_log v0 ths h sched i t r hi hd

/-- "consistent with real time": a call that had returned when another had not started is
committed before it (and only once). -/
theorem realtime_order (v0 : Vis) (ths : List Th) (h : Fresh ths) (s1 s2 : List Nat) (i j : Nat)
    (ti tj : Th) (r : Conc.Res)
    (hi : (run (init v0 ths) s1).ths[i]? = some ti) (hdi : ti.phase = .done r)
    (hj : (run (init v0 ths) s1).ths[j]? = some tj) (hsj : tj.phase = .start) :
    ∃ pre post ei, (run (init v0 ths) (s1 ++ s2)).log = pre ++ ei :: post ∧ ei.1 = i ∧
      (∀ e ∈ pre, e.1 ≠ j) ∧ (∀ e ∈ pre, e.1 ≠ i) :=
  Klev.Conc.realtime_order v0 ths h s1 s2 i j ti tj r hi hdi hj hsj

/-- "publishers receive disjoint consecutive offset ranges": a publish entry returns the next
offset of the log before it plus its batch length, and its messages are stamped from there. -/
theorem publish_entry_range (v : Vis) (pre post : List (Nat × Call × List Msg × Conc.Res)) (i : Nat) (b : Batch)
    (ch : List Msg) (r : Conc.Res)
    (h : LogOK v (pre ++ (i, Call.publish b, ch, r) :: post)) :
    r = .next ((replay v pre).next + b.length) :=
  Klev.Conc.publish_entry_range v pre post i b ch r h

/-- "a message once visible never changes or disappears unless a Delete reports it". -/
theorem no_unreported_loss (v : Vis) (log : List (Nat × Call × List Msg × Conc.Res)) (h : LogOK v log) (m : Msg)
    (hm : m ∈ v.live) (hgone : m ∉ (replay v log).live) :
    ∃ e ∈ log, ∃ offs, e.2.1 = Call.delete offs ∧ m ∈ e.2.2.1 ∧ e.2.2.2 = .deleted e.2.2.1 :=
  Klev.Conc.no_unreported_loss v log h m hm hgone

/-- Two publishers never hold the writer lock at once (and two deleters never the delete lock). -/
theorem writer_exclusive (v0 : Vis) (ths : List Th) (h : Fresh ths) (sched : List Nat) (i j : Nat) (ti tj : Th)
    (hi : (run (init v0 ths) sched).ths[i]? = some ti) (hj : (run (init v0 ths) sched).ths[j]? = some tj)
    (hwi : holdsW ti.phase = true) (hwj : holdsW tj.phase = true) : i = j :=
  Klev.Conc.writer_exclusive v0 ths h sched i j ti tj hi hj hwi hwj

/-- The sequential specification the lock discipline is linearizable against *is* the content semantics
of the modelled operations: `Log.publish` on a read-write log is one `seqStep` on `abs l` … -/
theorem publish_refines (l : Log) (hinv : Klev.Inv l) (hrw : l.opts.readonly = false) (b : Conc.Batch) :
    (l.publish b).2 = .ok ((abs l).next + b.length) ∧
    Conc.seqStep (Conc.toVis (abs l)) (.publish b) [] =
      (Conc.toVis (abs (l.publish b).1), .next ((abs l).next + b.length)) :=
  Klev.Conc.publish_refines l hinv hrw b

/-- … and `Log.delete` reporting `del` is one `seqStep` with the legal choice `del`. -/
theorem delete_refines (l : Log) (hinv : Klev.Inv l) (hrw : l.opts.readonly = false) (offs : List Int)
    (del : List Msg) (size : Int) (h : (l.delete offs).2 = .ok (del, size)) :
    Conc.LegalChoice (Conc.toVis (abs l)) (.delete offs) del ∧
    Conc.seqStep (Conc.toVis (abs l)) (.delete offs) del =
      (Conc.toVis (abs (l.delete offs).1), .deleted del) :=
  Klev.Conc.delete_refines l hinv hrw offs del size h

/-! ### reads of the head while publishes land

The read lock keeps rollovers and deletes out of a read call, not the appends to the head
(they happen under the writer lock). A read that looks at the head's index once is atomic at
that look (`Consume`: one snapshot; `Get`, `GetByKey`, `GetByTime`: one look, then records at
positions of an append-only file). `ConsumeByKey` looks twice; the order of the two looks in
the source is the regenerated fact `consumeByKeyNextFirst` in `source_facts`. -/

/-- How often, and in which order, each read of a segment looks at its index, regenerated from the
source (go/ast): `Consume` looks once (`GetNextOffset` for OffsetNewest, else the one snapshot
`index.Consume`); `Get` and `GetByKey` look once and then read records at positions, which never change
in an append-only file; `GetByTime` looks once (`Time`) and may then ask for the first item of an index
it has just found non-empty, which never changes either; `ConsumeByKey` is the read with two looks at a
growing index, next offset first: the theorems below. One look is atomic — this is what the lock-discipline
model's "reads are atomic" rests on for the head, whose index grows under the writer lock. -/
theorem reads_look_once :
    Gen.readerIndexLooks =
      "Consume:GetNextOffset,Consume;Get:Get;GetByKey:Keys;GetByTime:Time,Get;ConsumeByKey:GetNextOffset,Keys" := by
  decide

open Klev.HeadRead in
/-- **`ConsumeByKey` with the next offset read first is linearizable**: whatever publishes land
between its two looks, it returns what a sequential `ConsumeByKey` returns in the state of the
first look or in the state of the second. -/
theorem consumeByKey_two_looks (a b : Head) (g : Grows a b) (key : List UInt8) (off : Int) (max : Nat) :
    nextFirst a b key off max = spec a key off max ∨ nextFirst a b key off max = spec b key off max :=
  Klev.HeadRead.nextFirst_linearizable a b g key off max

open Klev.HeadRead in
/-- … and a reader never sees a gap: every message with the key that is in the head at the second
look or at any later time, at or after the requested offset and below the returned next offset,
is among the returned ones — iterating by key visits every message with the key. -/
theorem consumeByKey_no_skip (a b c : Head) (g : Grows a b) (g2 : Grows b c) (hb : b.OK)
    (hs : c.recs.Pairwise (fun x y => x.off < y.off))
    (key : List UInt8) (off : Int) (max : Nat) (hmax : 0 < max) :
    ∀ m ∈ c.recs, m.key = key → off ≤ m.off → m.off < (nextFirst a b key off max).1 →
      m ∈ (nextFirst a b key off max).2 :=
  Klev.HeadRead.nextFirst_no_skip a b c g g2 hb hs key off max hmax

open Klev.HeadRead in
/-- The sequential answer on the head is one the L0 relation of C09 accepts. -/
theorem consumeByKey_spec_l0 (h : Head) (key : List UInt8) (off : Int) (max : Nat) (hmax : 0 < max)
    (hoff : off ≠ Klev.offsetNewest) (hle : off ≤ h.next) :
    Klev.Spec.ConsumeByKeyOK true (Klev.Spec.mk h.recs h.next) key off max (.ok (spec h key off max)) :=
  Klev.HeadRead.spec_l0 h key off max hmax hoff hle

open Klev.HeadRead in
/-- **GetByTime past every message, the head empty when looked at (defect D21, repaired)**: the walk
that remembers the empty head (`getByTimeRemembersEmptyHead` in `source_facts`) answers what a
sequential lookup answers at that look; the walk that looks at the head again returns, in the
counterexample, a message *earlier* than the time asked for, published meanwhile — the sequential
answer in no state. (Replayed on the real code by the sched profile: `seeded/revert-D21`.) -/
theorem getByTime_empty_head :
    (∀ seg ts, gbtRemember seg ts = firstAt (seg ++ []) ts) ∧
    gbtRelook [⟨0, 5, [], [1]⟩] [⟨1, 7, [], [2]⟩] 10 = some ⟨1, 7, [], [2]⟩ ∧
    firstAt ([⟨0, 5, [], [1]⟩] ++ []) 10 = none ∧
    firstAt ([⟨0, 5, [], [1]⟩] ++ [⟨1, 7, [], [2]⟩]) 10 = none :=
  ⟨Klev.HeadRead.gbtRemember_linearizable, Klev.HeadRead.gbtRelook_counterexample.1,
   Klev.HeadRead.gbtRelook_counterexample.2.1, Klev.HeadRead.gbtRelook_counterexample.2.2.1⟩

open Klev.HeadRead in
/-- The two-look read *is* the modelled `reader.ConsumeByKey` (the function the C09 theorems and the
correspondence are about) when its context carries the next offset of an earlier state of the head
than the records and index it reads: the theorems above are theorems about the modelled function. -/
theorem consumeByKey_model_is_two_looks (c : RCtx) (s : Seg) (its : List Item) (key : List UInt8)
    (off mc : Int) (hit : ItemsFor s.ver s.recs its) (hk : KeysFor s.recs its)
    (hn : off ≠ Klev.offsetNewest) (bnext : Int) :
    readerConsumeByKey c s its key off mc =
      .ok (nextFirst ⟨[], c.nextOff⟩ ⟨s.recs, bnext⟩ key off (keyLim mc 0)) :=
  Klev.HeadRead.readerConsumeByKey_two_looks c s its key off mc hit hk hn bnext

open Klev.HeadRead in
/-- **The other order (defect D22, repaired) is neither**: keys first on an empty head, one
publish with the key, then the next offset: `(1, [])` is the sequential answer in neither state
and steps over the message at offset 0. (Replayed on the real code by the sched profile: the
reverse patch `seeded/revert-D22`.) -/
theorem consumeByKey_other_order_counterexample :
    Grows dA dB ∧ dA.OK ∧ dB.OK ∧
    keysFirst dA dB [1] 0 3 = (1, []) ∧
    keysFirst dA dB [1] 0 3 ≠ spec dA [1] 0 3 ∧ keysFirst dA dB [1] 0 3 ≠ spec dB [1] 0 3 ∧
    (∃ m ∈ dB.recs, m.key = [1] ∧ 0 ≤ m.off ∧ m.off < (keysFirst dA dB [1] 0 3).1 ∧
      m ∉ (keysFirst dA dB [1] 0 3).2) :=
  Klev.HeadRead.keysFirst_counterexample

end Klev.C08

/-! ### Non-vacuity

The theorems at the concrete threads and schedule of `Klev.Conc.Ex` (`Klev/Proofs/ConcProofs.lean`):
visible state `[m0, m1]`, thread 0 publishes two messages, thread 1 deletes offset 0, thread 2
reads; the schedule interleaves them (the Delete's swap waits for the writer lock). -/
section NonVacuity
open Klev.Conc Klev.Conc.Ex

-- two looks with a publish of the key in between: the source order returns the new message
example : Klev.HeadRead.nextFirst Klev.HeadRead.dA Klev.HeadRead.dB [1] 0 3 = (1, [⟨0, 5, [1], [2]⟩]) := by decide
example := Klev.C08.consumeByKey_two_looks _ _ Klev.HeadRead.d_grows [1] 0 3
example := Klev.C08.consumeByKey_no_skip _ _ _ Klev.HeadRead.d_grows
  (⟨⟨[], by simp, by intro m hm; cases hm⟩, Int.le_refl _⟩ : Klev.HeadRead.Grows Klev.HeadRead.dB Klev.HeadRead.dB)
  (by intro m hm; simp [Klev.HeadRead.dB] at hm; subst hm; decide) (by simp [Klev.HeadRead.dB]) [1] 0 3 (by decide)
example := Klev.C08.consumeByKey_spec_l0 Klev.HeadRead.dB [1] 0 3 (by decide) (by decide) (by decide)
-- the modelled reader function on a head of three records (index derived with keys), context next offset 2 of an
-- earlier state: it is the two-look read
example := Klev.C08.consumeByKey_model_is_two_looks ⟨true, 2⟩
  ⟨0, .v2, [⟨0, 5, [1], [2]⟩, ⟨1, 6, [3], []⟩, ⟨2, 7, [1], [4]⟩], none, none⟩
  (Klev.derive ⟨true, true⟩ .v2 [⟨0, 5, [1], [2]⟩, ⟨1, 6, [3], []⟩, ⟨2, 7, [1], [4]⟩]) [1] 0 3
  (Klev.derive_itemsFor _ _ _) (Klev.derive_keysFor _ _ _ rfl) (by decide) 3

example : Fresh ths := by unfold Fresh; decide
example := Klev.C08.linearizable v0 ths (by unfold Fresh; decide) sched
example := Klev.C08.done_result_in_log v0 ths (by unfold Fresh; decide) sched 0
  { call := .publish [(20, [3], [4]), (21, [], [5])], phase := .done (.next 4) } (.next 4) (by decide) rfl
-- the read (thread 2) has returned after `[2]`, the Publish (thread 0) has not started
example := Klev.C08.realtime_order v0 ths (by unfold Fresh; decide) [2] [0, 1, 0, 1, 1, 0, 1, 0, 1, 1] 2 0
  { call := .read 7, phase := .done (.answer 7 v0) } { call := .publish [(20, [3], [4]), (21, [], [5])] }
  (.answer 7 v0) (by decide) rfl (by decide) rfl
example := Klev.C08.publish_entry_range v0 [(2, .read 7, [], .answer 7 v0)]
  [(1, .delete [0], [m0], .deleted [m0])] 0 [(20, [3], [4]), (21, [], [5])] [] (.next 4) (by decide)
example := Klev.C08.no_unreported_loss v0 (run (init v0 ths) sched).log (by decide) m0 (by decide) (by decide)
-- after `[0, 0]` thread 0 holds the writer lock (files written, not yet committed)
example := Klev.C08.writer_exclusive v0 ths (by unfold Fresh; decide) [0, 0] 0 0
  { call := .publish [(20, [3], [4]), (21, [], [5])], phase := .pubWritten [m2, m3] }
  { call := .publish [(20, [3], [4]), (21, [], [5])], phase := .pubWritten [m2, m3] }
  (by decide) (by decide) rfl rfl

end NonVacuity

#print axioms Klev.C08.source_facts
#print axioms Klev.C08.linearizable
#print axioms Klev.C08.done_result_in_log
#print axioms Klev.C08.realtime_order
#print axioms Klev.C08.publish_entry_range
#print axioms Klev.C08.no_unreported_loss
#print axioms Klev.C08.writer_exclusive
#print axioms Klev.C08.publish_refines
#print axioms Klev.C08.delete_refines
#print axioms Klev.C08.reads_look_once
#print axioms Klev.C08.getByTime_empty_head
#print axioms Klev.C08.consumeByKey_two_looks
#print axioms Klev.C08.consumeByKey_no_skip
#print axioms Klev.C08.consumeByKey_spec_l0
#print axioms Klev.C08.consumeByKey_model_is_two_looks
#print axioms Klev.C08.consumeByKey_other_order_counterexample
