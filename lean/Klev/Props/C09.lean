/-
C09 — Key lookups return the last live message with exactly that key.
-/
import Klev.Proofs.KeyOK
import Klev.Proofs.ExtRun
import Klev.Proofs.ExtReads
import Klev.Proofs.Witness
namespace Klev.C09

/-- **Refinement.** On every log state satisfying the invariant (and whose indexes carry the
key hashes of their records — `KeysInv`, which every index producer establishes:
`derive_keys`), for every key: `Log.getByKey` — newest-to-oldest segment walk, hash
candidates read last-to-first through their positions, byte comparison with the stored
key — returns the live message with the greatest offset whose key is byte-for-byte equal
(nil ≡ empty: both are the empty list), `ErrNotFound` if there is none, `ErrNoIndex`
without the key index. The hash function is never unfolded: the theorem holds for an
arbitrary hash, so colliding keys are harmless. -/
theorem getByKey_ok (l : Log) (hinv : Inv l) (hk : KeysInv l) (key : List UInt8) :
    Spec.GetByKeyOK l.opts.params.keys (abs l) key (l.getByKey key).2 :=
  Klev.getByKey_ok l hinv hk key

/-- `Log.consumeByKey` returns a non-empty prefix (at most `max maxCount 1`) of the live
messages with that key at or after the offset whenever there is one, never a message
with another key, next = last + 1, and `NextOffset` when nothing is left. -/
theorem consumeByKey_ok (l : Log) (hinv : Inv l) (hk : KeysInv l) (key : List UInt8)
    (off : Int) (mc : Int) :
    Spec.ConsumeByKeyOK l.opts.params.keys (abs l) key off mc (l.consumeByKey key off mc).2 :=
  Klev.consumeByKey_ok l hinv hk key off mc

/-- Key lookups are reads: invariant, key-hash invariant and content are kept. -/
theorem getByKey_keeps (l : Log) (hinv : Inv l) (hk : KeysInv l) (key : List UInt8) :
    Loaded l (l.getByKey key).1 ∧ KeysInv (l.getByKey key).1 :=
  ⟨Klev.getByKey_loaded l hinv hk key, Klev.getByKey_keysInv l hinv hk key⟩

/-- Every index producer that goes through `derive` (rebuild on load, rewrite, migrate,
recover) stores the hash of each record's key. -/
theorem derive_keys (p : Params) (v : Ver) (recs : List Msg) (hk : p.keys = true) :
    KeysFor recs (derive p v recs) :=
  Klev.derive_keysFor p v recs hk

/-! ### The side condition `KeysInv` is an invariant of the API

The theorems above take `KeysInv l` as a hypothesis. Below it is discharged: it holds in the
state `Open` returns on an empty directory, every API step keeps it, and therefore the
refinement statements hold *unconditionally* in every state a history reaches — which is the
property's quantifier "for all C01 histories". -/

/-- `ConsumeByKey` is a read too: invariant, content and key-hash invariant are kept. -/
theorem consumeByKey_keeps (l : Log) (hinv : Inv l) (hk : KeysInv l) (key : List UInt8)
    (off mc : Int) :
    Loaded l (l.consumeByKey key off mc).1 ∧ KeysInv (l.consumeByKey key off mc).1 :=
  ⟨Klev.consumeByKey_loaded l hinv hk key off mc, Klev.consumeByKey_keysInv l hinv hk key off mc⟩

/-- The log `Open` returns on an empty directory satisfies `KeysInv`. -/
theorem keysInv_open_empty (oo : OpenOpts) : ∀ l0, Log.open [] oo = .ok l0 → KeysInv l0 :=
  Klev.keysInv_open_empty oo

/-- Every API step (Publish, Delete, reads, GC, Close/reopen with the same index
configuration) keeps `KeysInv` when the key index is configured. -/
theorem keysInv_step (l : Log) (hinv : Inv l) (hk : l.opts.params.keys = true) (hki : KeysInv l)
    (op : Op) (hpar : OpParams l.opts.params op) : KeysInv (stepOp l op) :=
  Klev.keysInv_step l hinv hk hki op hpar

/-- `KeysInv` (asked only when the key index is configured: `KeysInv'`) holds along every
history that keeps the index configuration. -/
theorem keysInv'_run (l : Log) (hinv : Inv l) (hki : KeysInv' l) (ops : List Op)
    (hsame : SameParams l.opts.params ops) : KeysInv' (runOps l ops) :=
  Klev.keysInv'_run l hinv hki ops hsame

/-- `getByKey_ok` with the hypothesis asked only when the key index is configured; without
the key index the call fails with `ErrNoIndex` (the `keys = false` branch of
`Spec.GetByKeyOK`) on every state. -/
theorem getByKey_ok' (l : Log) (hinv : Inv l) (hki : KeysInv' l) (key : List UInt8) :
    Spec.GetByKeyOK l.opts.params.keys (abs l) key (l.getByKey key).2 :=
  Klev.getByKey_ok' l hinv hki key

/-- `consumeByKey_ok` with the hypothesis asked only when the key index is configured;
`ErrNoIndex` otherwise. -/
theorem consumeByKey_ok' (l : Log) (hinv : Inv l) (hki : KeysInv' l) (key : List UInt8)
    (off mc : Int) :
    Spec.ConsumeByKeyOK l.opts.params.keys (abs l) key off mc (l.consumeByKey key off mc).2 :=
  Klev.consumeByKey_ok' l hinv hki key off mc

/-- **Clause "GetByKey / OffsetByKey return the last live message with exactly that key",
unconditionally.** For every open configuration, every operation sequence from an empty
directory (publishes, deletes, reads, GC, reopens that keep the index configuration) and
every key: `GetByKey` on the reached state meets its specification. No `Inv` or `KeysInv`
hypothesis. -/
theorem getByKey_ok_run (oo : OpenOpts) (ops : List Op) (hsame : SameParams oo.opts.params ops)
    (key : List UInt8) : ∀ l0, Log.open [] oo = .ok l0 →
    Spec.GetByKeyOK (runOps l0 ops).opts.params.keys (abs (runOps l0 ops)) key
      ((runOps l0 ops).getByKey key).2 :=
  Klev.getByKey_ok_run oo ops hsame key

/-- **Clause "ConsumeByKey returns exactly the live messages with that key, in offset order,
and ends at NextOffset", unconditionally**: for every operation sequence from an empty
directory, every key, every cursor offset and every max count. -/
theorem consumeByKey_ok_run (oo : OpenOpts) (ops : List Op)
    (hsame : SameParams oo.opts.params ops) (key : List UInt8) (off mc : Int) :
    ∀ l0, Log.open [] oo = .ok l0 →
    Spec.ConsumeByKeyOK (runOps l0 ops).opts.params.keys (abs (runOps l0 ops)) key off mc
      ((runOps l0 ops).consumeByKey key off mc).2 :=
  Klev.consumeByKey_ok_run oo ops hsame key off mc

/-- All side conditions of the lookups bundled (`Good`): on such a state all three lookups
meet their specifications. -/
theorem good_lookups {l : Log} (hg : Good l) :
    (∀ key, Spec.GetByKeyOK l.opts.params.keys (abs l) key (l.getByKey key).2) ∧
    (∀ key off mc, Spec.ConsumeByKeyOK l.opts.params.keys (abs l) key off mc
      (l.consumeByKey key off mc).2) ∧
    (∀ t, Spec.GetByTimeOK l.opts.params.times (abs l) t (l.getByTime t).2) :=
  hg.lookups

/-- **The same with the lookups themselves inside the history** (`OpX`: they change the
state by loading indexes). After any interleaving of API steps and key/time lookups from an
empty directory, the key lookups (and the time lookup) meet their specifications. The
publish-time hypothesis is asked only when the time index is configured; it concerns C10. -/
theorem lookups_ok_runX (oo : OpenOpts) (xs : List OpX) (hsame : SameParamsX oo.opts.params xs) :
    ∀ l0, Log.open [] oo = .ok l0 → (oo.opts.params.times = true → TimesOKRunX l0 xs) →
    (∀ key, Spec.GetByKeyOK (runX l0 xs).opts.params.keys (abs (runX l0 xs)) key
      ((runX l0 xs).getByKey key).2) ∧
    (∀ key off mc, Spec.ConsumeByKeyOK (runX l0 xs).opts.params.keys (abs (runX l0 xs)) key off mc
      ((runX l0 xs).consumeByKey key off mc).2) ∧
    (∀ t, Spec.GetByTimeOK (runX l0 xs).opts.params.times (abs (runX l0 xs)) t
      ((runX l0 xs).getByTime t).2) :=
  Klev.lookups_ok_runX oo xs hsame

/-- The key part of `lookups_ok_runX` on a log opened without the time index: no hypothesis
on the history at all beyond "reopens keep the index configuration". -/
theorem key_lookups_ok_runX (oo : OpenOpts) (xs : List OpX) (hsame : SameParamsX oo.opts.params xs)
    (hnt : oo.opts.params.times = false) :
    ∀ l0, Log.open [] oo = .ok l0 →
    (∀ key, Spec.GetByKeyOK (runX l0 xs).opts.params.keys (abs (runX l0 xs)) key
      ((runX l0 xs).getByKey key).2) ∧
    (∀ key off mc, Spec.ConsumeByKeyOK (runX l0 xs).opts.params.keys (abs (runX l0 xs)) key off mc
      ((runX l0 xs).consumeByKey key off mc).2) := fun l0 ho =>
  have h := Klev.lookups_ok_runX oo xs hsame l0 ho (fun ht => by rw [hnt] at ht; cases ht)
  ⟨h.1, h.2.1⟩

/-- With the time index configured as well: a history (lookups included) whose published
times never decrease — a condition on the operation list alone. -/
theorem lookups_ok_monoX (oo : OpenOpts) (xs : List OpX) (hsame : SameParamsX oo.opts.params xs)
    (hmono : oo.opts.params.times = true → PubMonoX 0 xs) :
    ∀ l0, Log.open [] oo = .ok l0 →
    (∀ key, Spec.GetByKeyOK (runX l0 xs).opts.params.keys (abs (runX l0 xs)) key
      ((runX l0 xs).getByKey key).2) ∧
    (∀ key off mc, Spec.ConsumeByKeyOK (runX l0 xs).opts.params.keys (abs (runX l0 xs)) key off mc
      ((runX l0 xs).consumeByKey key off mc).2) ∧
    (∀ t, Spec.GetByTimeOK (runX l0 xs).opts.params.times (abs (runX l0 xs)) t
      ((runX l0 xs).getByTime t).2) :=
  Klev.lookups_ok_monoX oo xs hsame hmono

end Klev.C09

/-! ### Non-vacuity

The theorems at the witness log `Witness.wL` (key index and time index on; key `[1]` published
at offsets 0, 2, 6, key `[2]` at 1, 8, key `[3]` only at the deleted offset 3, key `[6]` at 4
without value), at the extended history `Witness.xs` (lookups inside, state `Witness.wX`) and at
a key-index-only history `Witness.xsK` whose times decrease (`Klev/Proofs/Witness.lean`). All
hypotheses were obtained from the reachability theorems of this file. -/
section NonVacuity
open Klev Klev.Witness

example := Klev.C09.getByKey_ok wL wL_inv wL_keysInv [1]
example := Klev.C09.getByKey_ok wL wL_inv wL_keysInv [3]
example := Klev.C09.consumeByKey_ok wL wL_inv wL_keysInv [1] 1 10
example := Klev.C09.getByKey_keeps wL wL_inv wL_keysInv [2]
example := Klev.C09.derive_keys ⟨true, true⟩ .v2 (abs wL).live rfl
example := Klev.C09.consumeByKey_keeps wL wL_inv wL_keysInv [1] 0 2
example : KeysInv l0 := Klev.C09.keysInv_open_empty oo l0 open_l0
example := Klev.C09.keysInv_step wL wL_inv wL_keysOn wL_keysInv (.delete [4]) trivial
example := Klev.C09.keysInv_step wL wL_inv wL_keysOn wL_keysInv (.reopen [0, 5] (some .v1) true oo)
  (show oo.opts.params = wL.opts.params by decide)
-- `KeysInv' wL` itself is an instance of `keysInv'_run` (from the empty log), and `wL` is a
-- legitimate starting state again
example : KeysInv' wL := Klev.C09.keysInv'_run l0 l0_inv (fun _ => keysInv_open_empty oo l0 open_l0) ops ops_same
example := Klev.C09.keysInv'_run wL wL_inv wL_keysInv' [.publish [(60, [1], [])], .delete [0], .gc]
  ⟨trivial, trivial, trivial, trivial⟩
example := Klev.C09.getByKey_ok' wL wL_inv wL_keysInv' [6]
example := Klev.C09.consumeByKey_ok' wL wL_inv wL_keysInv' [2] offsetOldest 0
example := Klev.C09.getByKey_ok_run oo ops ops_same [1] l0 open_l0
example := Klev.C09.consumeByKey_ok_run oo ops ops_same [1] 1 10 l0 open_l0
example := Klev.C09.good_lookups wL_good
example := Klev.C09.good_lookups wX_good
example := Klev.C09.lookups_ok_runX oo xs xs_same l0 open_l0 (fun _ => xs_timesOK)
example := Klev.C09.key_lookups_ok_runX ooK xsK xsK_same rfl l0K open_l0K
example := Klev.C09.lookups_ok_monoX oo xs xs_same (fun _ => xs_mono) l0 open_l0

-- evaluated
example : (wL.getByKey [1]).2 = .ok ⟨6, 40, [1], [6]⟩ ∧ (wL.getByKey [2]).2 = .ok ⟨8, 50, [2], [8]⟩ ∧
    (wL.getByKey [6]).2 = .ok ⟨4, 30, [6], []⟩ ∧ (wL.getByKey [3]).2 = .err .notFound ∧
    (wL.getByKey []).2 = .err .notFound := by decide
example : (wL.consumeByKey [1] 1 10).2 = .ok (3, [⟨2, 20, [1], [3]⟩]) ∧
    (wL.consumeByKey [1] 0 1).2 = .ok (1, [⟨0, 10, [1], [1]⟩]) ∧
    (wL.consumeByKey [1] 7 1).2 = .ok (9, []) ∧ (wL.consumeByKey [3] 0 1).2 = .ok (9, []) := by decide
example : (wX.getByKey [1]).2 = (wL.getByKey [1]).2 := by decide
example : (abs (runX l0K xsK)).live.map (fun m => (m.off, m.time, m.key)) = [(1, 20, [2]), (2, 5, [1]), (3, 5, [3])] ∧
    ((runX l0K xsK).getByKey [1]).2 = .ok ⟨2, 5, [1], [3]⟩ ∧
    ((runX l0K xsK).getByTime 3).2 = .err .noIndex := by decide

end NonVacuity

#print axioms Klev.C09.getByKey_ok
#print axioms Klev.C09.consumeByKey_ok
#print axioms Klev.C09.getByKey_keeps
#print axioms Klev.C09.derive_keys
#print axioms Klev.C09.consumeByKey_keeps
#print axioms Klev.C09.keysInv_open_empty
#print axioms Klev.C09.keysInv_step
#print axioms Klev.C09.keysInv'_run
#print axioms Klev.C09.getByKey_ok'
#print axioms Klev.C09.consumeByKey_ok'
#print axioms Klev.C09.getByKey_ok_run
#print axioms Klev.C09.consumeByKey_ok_run
#print axioms Klev.C09.good_lookups
#print axioms Klev.C09.lookups_ok_runX
#print axioms Klev.C09.key_lookups_ok_runX
#print axioms Klev.C09.lookups_ok_monoX
