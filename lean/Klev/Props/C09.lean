/-
C09 — Key lookups return the last live message with exactly that key.
-/
import Klev.Proofs.KeyOK
namespace Klev.C09

/-- **Refinement.** On every log state satisfying the invariant (and whose indexes carry the
key hashes of their records — `KeysInv`, which every index producer establishes:
`derive_keys`), for every key: `Log.getByKey` — newest-to-oldest segment walk, hash
candidates read last-to-first through their positions, byte comparison with the stored
key — returns the live message with the greatest offset whose key is byte-for-byte equal
(nil ≡ empty: both are the empty list), `ErrNotFound` if there is none, `ErrNoIndex`
without the key index. The hash function is never unfolded: the theorem holds for an
arbitrary hash, so colliding keys are harmless. -/
theorem getByKey_ok (l : Log) (hinv : Inv l) (hk : KeysInv l) (key : List UInt8) :
    Spec.GetByKeyOK l.opts.params.keys (abs l) key (l.getByKey key).2 :=
  Klev.getByKey_ok l hinv hk key

/-- `Log.consumeByKey` returns a non-empty prefix (at most `max maxCount 1`) of the live
messages with that key at or after the offset whenever there is one, never a message
with another key, next = last + 1, and `NextOffset` when nothing is left. -/
theorem consumeByKey_ok (l : Log) (hinv : Inv l) (hk : KeysInv l) (key : List UInt8)
    (off : Int) (mc : Int) :
    Spec.ConsumeByKeyOK l.opts.params.keys (abs l) key off mc (l.consumeByKey key off mc).2 :=
  Klev.consumeByKey_ok l hinv hk key off mc

/-- Key lookups are reads: invariant, key-hash invariant and content are kept. -/
theorem getByKey_keeps (l : Log) (hinv : Inv l) (hk : KeysInv l) (key : List UInt8) :
    Loaded l (l.getByKey key).1 ∧ KeysInv (l.getByKey key).1 :=
  ⟨Klev.getByKey_loaded l hinv hk key, Klev.getByKey_keysInv l hinv hk key⟩

/-- Every index producer that goes through `derive` (rebuild on load, rewrite, migrate,
recover) stores the hash of each record's key. -/
theorem derive_keys (p : Params) (v : Ver) (recs : List Msg) (hk : p.keys = true) :
    KeysFor recs (derive p v recs) :=
  Klev.derive_keysFor p v recs hk

end Klev.C09

#print axioms Klev.C09.getByKey_ok
#print axioms Klev.C09.consumeByKey_ok
#print axioms Klev.C09.getByKey_keeps
#print axioms Klev.C09.derive_keys
