/-
C10 — Time lookups return the first live message at or after the given time.
-/
import Klev.Proofs.IndexSearch
import Klev.Proofs.SearchTie
import Klev.Proofs.TimeOK
import Klev.Proofs.ExtRun
import Klev.Proofs.ExtReads
import Klev.Proofs.ExtInv
import Klev.Proofs.Witness
namespace Klev.C10

/-- **Refinement.** On every log state satisfying the invariant whose live message times
never decrease with offset and are ≥ 0 (`Monotone`), whose indexes carry the records'
times (`TimesInv`; under `Monotone` every index producer establishes it: `derive_times`)
and whose segments start at their first record (`FirstAtBase`): `Log.getByTime` —
newest-to-oldest walk with the before-start / after-end hand-offs, the empty head skipped,
ties at a segment start continued in the previous segment — returns the live message
with the smallest offset whose time is not before the argument; `ErrNotFound` if every
live message is earlier (`ErrNotFound` or `ErrInvalidOffset` on an empty log);
`ErrNoIndex` without the time index. The answer is a function of `abs l` only, hence
independent of segmentation, deletes and index rebuilds. -/
theorem getByTime_ok (l : Log) (hinv : Inv l) (ht : TimesInv l) (hm : Spec.Monotone (abs l))
    (hfab : FirstAtBase l) (t : Int) :
    Spec.GetByTimeOK l.opts.params.times (abs l) t (l.getByTime t).2 :=
  Klev.getByTime_ok l hinv ht hm hfab t

/-- Under `Monotone`, a derived index stores each record's own time (the running maximum
from 0 is the time itself). -/
theorem derive_times (p : Params) (v : Ver) (recs : List Msg) (hp : p.times = true)
    (hmono : recs.Pairwise (fun a b => a.time ≤ b.time)) (h0 : ∀ m ∈ recs, 0 ≤ m.time) :
    TimesFor recs (derive p v recs) :=
  Klev.derive_timesFor p v recs hp hmono h0

/-- The in-segment lower bound of `index.Time` (including the `sort.Search` loop), for
every index with non-decreasing timestamps and every time. -/
theorem index_time_spec (items : List Item) (ts : Int) (hs : SortedTs items) :
    Index.time items ts = Index.timeSpec items ts :=
  Index.time_eq_spec items ts hs

example : Index.time [⟨1, 8, 5, 0⟩, ⟨3, 50, 7, 0⟩, ⟨5, 90, 7, 0⟩, ⟨9, 130, 9, 0⟩] 6 = .ok 50 := by decide

/-- `GetByTime` is a read: it only loads indexes (invariant, content and options kept), and
the loads keep `TimesInv`. -/
theorem getByTime_keeps (l : Log) (hinv : Inv l) (ht : TimesInv l) (hm : Spec.Monotone (abs l))
    (hfab : FirstAtBase l) (t : Int) :
    Loaded l (l.getByTime t).1 ∧ TimesInv (l.getByTime t).1 :=
  ⟨Klev.getByTime_loaded l hinv ht hm hfab t, Klev.getByTime_timesInv l hinv ht hm hfab t⟩

/-! ### The side conditions are invariants of the API

`getByTime_ok` takes `TimesInv`, `Monotone` and `FirstAtBase` as hypotheses. Below they are
discharged on every state a history reaches from an empty directory, under a hypothesis on
the *publish times of the history* (`PubTimesOK` / `TimesOKRun`; `PubMono` is the version
that mentions the operation list only). This is the property's quantifier "for all C01
histories whose times are non-decreasing". -/

/-- `FirstAtBase` holds along every history, unconditionally. -/
theorem firstAtBase_run (l : Log) (hinv : Inv l) (hf : FirstAtBase l) (ops : List Op) :
    FirstAtBase (runOps l ops) :=
  Klev.firstAtBase_run l hinv hf ops

/-- Every API step keeps `Monotone`, when the published batch is sorted and at or after the
writer's `nextTime`, 0 and every live time (`PubTimesOK`). -/
theorem monotone_step (l : Log) (hinv : Inv l) (hm : Spec.Monotone (abs l)) (op : Op)
    (hpub : PubTimesOK l op) : Spec.Monotone (abs (stepOp l op)) :=
  Klev.monotone_step l hinv hm op hpub

/-- Every API step keeps `TimesInv` under the same publish hypothesis (deletes, GC, reopens
with index files removed / migrated / recovered included: "the answer does not depend on
deletes or on index rebuilds"). -/
theorem timesInv_step (l : Log) (hinv : Inv l) (hp : l.opts.params.times = true)
    (hti : TimesInv l) (hm : Spec.Monotone (abs l)) (op : Op)
    (hpar : OpParams l.opts.params op) (hpub : PubTimesOK l op) : TimesInv (stepOp l op) :=
  Klev.timesInv_step l hinv hp hti hm op hpar hpub

/-- `TimesInv` and `Monotone` hold along every history that keeps the index configuration
and whose publishes satisfy `PubTimesOK`. -/
theorem times_run (l : Log) (hinv : Inv l) (hp : l.opts.params.times = true) (hti : TimesInv l)
    (hm : Spec.Monotone (abs l)) (ops : List Op) (hsame : SameParams l.opts.params ops)
    (hok : TimesOKRun l ops) :
    TimesInv (runOps l ops) ∧ Spec.Monotone (abs (runOps l ops)) :=
  Klev.times_run l hinv hp hti hm ops hsame hok

/-- **The refinement on reachable states.** After any history from an empty directory that
keeps the index configuration and whose publishes satisfy `PubTimesOK`, for every query
time: `GetByTime` returns the first live message whose time is not before `t`
(`ErrNoIndex` without the time index). No `Inv` / `TimesInv` / `Monotone` / `FirstAtBase`
hypothesis. -/
theorem getByTime_ok_run (oo : OpenOpts) (ops : List Op) (hsame : SameParams oo.opts.params ops)
    (t : Int) : ∀ l0, Log.open [] oo = .ok l0 → TimesOKRun l0 ops →
    Spec.GetByTimeOK (runOps l0 ops).opts.params.times (abs (runOps l0 ops)) t
      ((runOps l0 ops).getByTime t).2 :=
  Klev.getByTime_ok_run oo ops hsame t

/-- The time carry (the writer's `nextTime` and every live time are at most the high-water
mark `hw` of the published times) is kept by every step of a history whose published times
never decrease, and it gives the publish hypothesis `PubTimesOK`. -/
theorem timeCarry_step (l : Log) (hinv : Inv l) (hp : l.opts.params.times = true)
    (hti : TimesInv l) (hm : Spec.Monotone (abs l)) (hw : Int) (hc : TimeCarry l hw) (op : Op)
    (hpar : OpParams l.opts.params op) (hmono : PubMonoOp hw op) :
    PubTimesOK l op ∧ TimeCarry (stepOp l op) (hwNext hw op) :=
  Klev.timeCarry_step l hinv hp hti hm hw hc op hpar hmono

/-- A history whose published times never decrease (`PubMono`) satisfies `TimesOKRun`. -/
theorem timesOKRun_of_pubMono (l : Log) (hinv : Inv l) (hp : l.opts.params.times = true)
    (hti : TimesInv l) (hm : Spec.Monotone (abs l)) (hw : Int) (hc : TimeCarry l hw)
    (ops : List Op) (hsame : SameParams l.opts.params ops) (hmono : PubMono hw ops) :
    TimesOKRun l ops :=
  Klev.timesOKRun_of_pubMono l hinv hp hti hm hw hc ops hsame hmono

/-- **The property at its stated quantifier: monotone publish histories.** After any
history from an empty directory that keeps the index configuration and whose *published*
times are non-negative and never decrease — a condition on the operation list alone — for
every query time, `GetByTime` returns the first live message whose time is not before `t`,
whatever the segmentation, the deletes, the GC runs and the index rebuilds in between. -/
theorem getByTime_ok_mono (oo : OpenOpts) (ops : List Op) (hsame : SameParams oo.opts.params ops)
    (hmono : PubMono 0 ops) (t : Int) : ∀ l0, Log.open [] oo = .ok l0 →
    Spec.GetByTimeOK (runOps l0 ops).opts.params.times (abs (runOps l0 ops)) t
      ((runOps l0 ops).getByTime t).2 :=
  Klev.getByTime_ok_mono oo ops hsame hmono t

/-- The same with the lookups themselves inside the history (`OpX`; they change the state
by loading indexes): all three lookups meet their specifications on every reachable state,
under the publish hypothesis (asked only when the time index is configured). -/
theorem lookups_ok_runX (oo : OpenOpts) (xs : List OpX) (hsame : SameParamsX oo.opts.params xs) :
    ∀ l0, Log.open [] oo = .ok l0 → (oo.opts.params.times = true → TimesOKRunX l0 xs) →
    (∀ key, Spec.GetByKeyOK (runX l0 xs).opts.params.keys (abs (runX l0 xs)) key
      ((runX l0 xs).getByKey key).2) ∧
    (∀ key off mc, Spec.ConsumeByKeyOK (runX l0 xs).opts.params.keys (abs (runX l0 xs)) key off mc
      ((runX l0 xs).consumeByKey key off mc).2) ∧
    (∀ t, Spec.GetByTimeOK (runX l0 xs).opts.params.times (abs (runX l0 xs)) t
      ((runX l0 xs).getByTime t).2) :=
  Klev.lookups_ok_runX oo xs hsame

/-- **Monotone publish histories, lookups included**: the only conditions are on the
operation list — reopens keep the index configuration and, when the time index is
configured, published times are non-negative and never decrease. -/
theorem lookups_ok_monoX (oo : OpenOpts) (xs : List OpX) (hsame : SameParamsX oo.opts.params xs)
    (hmono : oo.opts.params.times = true → PubMonoX 0 xs) :
    ∀ l0, Log.open [] oo = .ok l0 →
    (∀ key, Spec.GetByKeyOK (runX l0 xs).opts.params.keys (abs (runX l0 xs)) key
      ((runX l0 xs).getByKey key).2) ∧
    (∀ key off mc, Spec.ConsumeByKeyOK (runX l0 xs).opts.params.keys (abs (runX l0 xs)) key off mc
      ((runX l0 xs).consumeByKey key off mc).2) ∧
    (∀ t, Spec.GetByTimeOK (runX l0 xs).opts.params.times (abs (runX l0 xs)) t
      ((runX l0 xs).getByTime t).2) :=
  Klev.lookups_ok_monoX oo xs hsame hmono

/-! ### Why the quantifier is "non-decreasing *publish* times": a counterexample

Monotone *live* messages are not enough; the publish history must be monotone — the
writer's time carry survives Delete. Time index on. Publish one message with time 10, delete
it (the head is emptied, the writer's `nextTime` stays 10), publish one message with time 7
(`cxOps`). At the third step the batch is sorted, non-negative and at or after every live
time (there is none); the content stays `Monotone`; yet the stamped index timestamp is
`max 7 10 = 10`, `TimesInv` fails, and `GetByTime 8` violates its specification. -/

/-- The counterexample starts from the log `Open` returns on an empty directory. -/
theorem cx_start : Log.open [] cxOpen = .ok cxStart := Klev.cx_start

/-- Before the last publish nothing is live, and the writer still remembers time 10. -/
theorem cx_before : (abs (runOps cxStart (cxOps.take 2))).live = [] ∧
    (runOps cxStart (cxOps.take 2)).wNextTime = 10 := Klev.cx_before

/-- The live messages of the final state *are* monotone (there is exactly one). -/
theorem cx_monotone : Spec.Monotone (abs (runOps cxStart cxOps)) := Klev.cx_monotone

/-- The head's one record has time 7, its index item carries timestamp 10. -/
theorem cx_index : (runOps cxStart cxOps).segs.map
    (fun s => (s.recs.map (·.time), s.mem.map (·.map (·.ts)))) = [([7], some [10])] :=
  Klev.cx_index

/-- Hence `TimesInv` fails on a reachable state with monotone content. -/
theorem cx_not_timesInv : ¬ TimesInv (runOps cxStart cxOps) := Klev.cx_not_timesInv

/-- **Monotone live messages are not enough.** On this reachable state with `Monotone`
content, `GetByTime 8` does *not* meet `Spec.GetByTimeOK`: it answers with the message of
time 7 where the specification says "not found". The publish history is not monotone
(10, then 7 — `cx_not_pubMono`), which is exactly what `getByTime_ok_mono` excludes. -/
theorem cx_getByTime : ¬ Spec.GetByTimeOK true (abs (runOps cxStart cxOps)) 8
    ((runOps cxStart cxOps).getByTime 8).2 := Klev.cx_getByTime

/-- The counterexample history is not a monotone publish history (7 after 10), so it is
outside the property's quantifier; the theorems above and the counterexample are
consistent. -/
theorem cx_not_pubMono : ¬ PubMono 0 cxOps := by
  intro h
  exact absurd (h.2.2.1.2 7 (by decide)) (by decide)

/-- **Regenerated tie (T4).** `index.Time` of the current source (with the standard library's
`sort.Search` loop as a library model), translated statement by statement on every run, equals
the model function for every input. -/
theorem search_tie_time (items : List Item) (ts : Int) :
    Gen.Search.indexTime items ts = Index.time items ts :=
  Klev.indexTime_tie items ts

end Klev.C10

/-! ### Non-vacuity

The theorems at the witness log `Witness.wL` (time index on; live times 10 20 | 20 30 | 30 40 | 50
over four segments — the tie at 20 and the tie at 30 both straddle a segment boundary; offsets 3
and 7 deleted), its derived index `Witness.wIdx`, the history `Witness.ops` from the empty log
`Witness.l0`, and the extended history `Witness.xs` (`Klev/Proofs/Witness.lean`). `TimesInv`,
`Monotone`, `FirstAtBase` and the time carry of `wL` were obtained from the reachability
theorems of this file. -/
section NonVacuity
open Klev Klev.Witness

example := Klev.C10.getByTime_ok wL wL_inv wL_timesInv wL_mono wL_fab 20
example := Klev.C10.getByTime_ok wL wL_inv wL_timesInv wL_mono wL_fab 51
example := Klev.C10.derive_times ⟨true, true⟩ .v2 (abs wL).live rfl wL_mono.1 wL_mono.2
example := Klev.C10.index_time_spec wIdx 25 wIdx_sortedTs
example := Klev.C10.getByTime_keeps wL wL_inv wL_timesInv wL_mono wL_fab 30
example : FirstAtBase wL := Klev.C10.firstAtBase_run l0 l0_inv (firstAtBase_open_empty oo l0 open_l0) ops
example := Klev.C10.firstAtBase_run wL wL_inv wL_fab [.delete [5], .delete [0, 1], .publish [(0, [], [])]]
-- one more step from `wL`: the carry (high-water mark 50) gives the publish hypothesis
example := Klev.C10.timeCarry_step wL wL_inv wL_timesOn wL_timesInv wL_mono 50 wL_carry
  (.publish [(50, [1], [1]), (55, [], [])]) trivial (by simp [PubMonoOp])
example := Klev.C10.monotone_step wL wL_inv wL_mono (.publish [(50, [1], [1]), (55, [], [])])
  (Klev.timeCarry_step wL wL_inv wL_timesOn wL_timesInv wL_mono 50 wL_carry
    (.publish [(50, [1], [1]), (55, [], [])]) trivial (by simp [PubMonoOp])).1
example := Klev.C10.monotone_step wL wL_inv wL_mono (.delete [4]) trivial
example := Klev.C10.timesInv_step wL wL_inv wL_timesOn wL_timesInv wL_mono
  (.publish [(50, [1], [1]), (55, [], [])]) trivial
  (Klev.timeCarry_step wL wL_inv wL_timesOn wL_timesInv wL_mono 50 wL_carry
    (.publish [(50, [1], [1]), (55, [], [])]) trivial (by simp [PubMonoOp])).1
example := Klev.C10.timesInv_step wL wL_inv wL_timesOn wL_timesInv wL_mono
  (.reopen [0, 2, 5, 8] (some .v1) true oo) (show oo.opts.params = wL.opts.params by decide) trivial
-- `TimesInv wL ∧ Monotone (abs wL)` is itself an instance of `times_run` (from the empty log)
example : TimesInv wL ∧ Spec.Monotone (abs wL) :=
  Klev.C10.times_run l0 l0_inv rfl (timesInv_open_empty oo l0 open_l0)
    (by rw [l0_abs]; exact monotone_empty) ops ops_same ops_timesOK
example : TimesOKRun l0 ops :=
  Klev.C10.timesOKRun_of_pubMono l0 l0_inv rfl (timesInv_open_empty oo l0 open_l0)
    (by rw [l0_abs]; exact monotone_empty) 0 l0_carry ops ops_same ops_mono
-- … and `wL` is a legitimate starting state again
example := Klev.C10.timesOKRun_of_pubMono wL wL_inv wL_timesOn wL_timesInv wL_mono 50 wL_carry
  [.delete [8], .publish [(50, [1], [1])], .gc, .publish [(70, [], [])]]
  ⟨trivial, trivial, trivial, trivial, trivial⟩ (by simp [PubMono, PubMonoOp, hwNext, lastTime])
example := Klev.C10.times_run wL wL_inv wL_timesOn wL_timesInv wL_mono
  [.delete [8], .publish [(50, [1], [1])], .gc, .publish [(70, [], [])]]
  ⟨trivial, trivial, trivial, trivial, trivial⟩
  (Klev.timesOKRun_of_pubMono wL wL_inv wL_timesOn wL_timesInv wL_mono 50 wL_carry _
    ⟨trivial, trivial, trivial, trivial, trivial⟩ (by simp [PubMono, PubMonoOp, hwNext, lastTime]))
example := Klev.C10.getByTime_ok_run oo ops ops_same 20 l0 open_l0 ops_timesOK
example := Klev.C10.getByTime_ok_mono oo ops ops_same ops_mono 25 l0 open_l0
example := Klev.C10.lookups_ok_runX oo xs xs_same l0 open_l0 (fun _ => xs_timesOK)
example := Klev.C10.lookups_ok_monoX oo xs xs_same (fun _ => xs_mono) l0 open_l0

-- evaluated: the tie at 20 is answered from the *previous* segment (offset 1, not 2), the tie at
-- 30 likewise (offset 4, not 5); before the first, between, after the last
example : (wL.getByTime 20).2 = .ok ⟨1, 20, [2], [2]⟩ ∧ (wL.getByTime 30).2 = .ok ⟨4, 30, [6], []⟩ ∧
    (wL.getByTime 0).2 = .ok ⟨0, 10, [1], [1]⟩ ∧ (wL.getByTime 25).2 = .ok ⟨4, 30, [6], []⟩ ∧
    (wL.getByTime 31).2 = .ok ⟨6, 40, [1], [6]⟩ ∧ (wL.getByTime 45).2 = .ok ⟨8, 50, [2], [8]⟩ ∧
    (wL.getByTime 51).2 = .err .notFound := by decide
example : (wX.getByTime 20).2 = (wL.getByTime 20).2 := by decide
example : Index.time wIdx 25 = .ok 122 ∧ Index.time wIdx 20 = .ok 46 ∧
    Index.time wIdx 51 = .error .timeAfter := by decide
example : (wL.segs.map (fun s => s.recs.map (·.time))) = [[10, 20], [20, 30], [30, 40], [50]] := by decide

end NonVacuity

#print axioms Klev.C10.getByTime_ok
#print axioms Klev.C10.derive_times
#print axioms Klev.C10.index_time_spec
#print axioms Klev.C10.getByTime_keeps
#print axioms Klev.C10.firstAtBase_run
#print axioms Klev.C10.monotone_step
#print axioms Klev.C10.timesInv_step
#print axioms Klev.C10.times_run
#print axioms Klev.C10.getByTime_ok_run
#print axioms Klev.C10.timeCarry_step
#print axioms Klev.C10.timesOKRun_of_pubMono
#print axioms Klev.C10.getByTime_ok_mono
#print axioms Klev.C10.lookups_ok_runX
#print axioms Klev.C10.lookups_ok_monoX
#print axioms Klev.C10.cx_start
#print axioms Klev.C10.cx_before
#print axioms Klev.C10.cx_monotone
#print axioms Klev.C10.cx_index
#print axioms Klev.C10.cx_not_timesInv
#print axioms Klev.C10.cx_getByTime
#print axioms Klev.C10.cx_not_pubMono
#print axioms Klev.C10.search_tie_time
