/-
C10 — Time lookups return the first live message at or after the given time.
-/
import Klev.Proofs.IndexSearch
import Klev.Proofs.TimeOK
namespace Klev.C10

/-- **Refinement.** On every log state satisfying the invariant whose live message times
never decrease with offset and are ≥ 0 (`Monotone`), whose indexes carry the records'
times (`TimesInv`; under `Monotone` every index producer establishes it: `derive_times`)
and whose segments start at their first record (`FirstAtBase`): `Log.getByTime` —
newest-to-oldest walk with the before-start / after-end hand-offs, the empty head skipped,
ties at a segment start continued in the previous segment — returns the live message
with the smallest offset whose time is not before the argument; `ErrNotFound` if every
live message is earlier (`ErrNotFound` or `ErrInvalidOffset` on an empty log);
`ErrNoIndex` without the time index. The answer is a function of `abs l` only, hence
independent of segmentation, deletes and index rebuilds. -/
theorem getByTime_ok (l : Log) (hinv : Inv l) (ht : TimesInv l) (hm : Spec.Monotone (abs l))
    (hfab : FirstAtBase l) (t : Int) :
    Spec.GetByTimeOK l.opts.params.times (abs l) t (l.getByTime t).2 :=
  Klev.getByTime_ok l hinv ht hm hfab t

/-- Under `Monotone`, a derived index stores each record's own time (the running maximum
from 0 is the time itself). -/
theorem derive_times (p : Params) (v : Ver) (recs : List Msg) (hp : p.times = true)
    (hmono : recs.Pairwise (fun a b => a.time ≤ b.time)) (h0 : ∀ m ∈ recs, 0 ≤ m.time) :
    TimesFor recs (derive p v recs) :=
  Klev.derive_timesFor p v recs hp hmono h0

/-- The in-segment lower bound of `index.Time` (including the `sort.Search` loop), for
every index with non-decreasing timestamps and every time. -/
theorem index_time_spec (items : List Item) (ts : Int) (hs : SortedTs items) :
    Index.time items ts = Index.timeSpec items ts :=
  Index.time_eq_spec items ts hs

example : Index.time [⟨1, 8, 5, 0⟩, ⟨3, 50, 7, 0⟩, ⟨5, 90, 7, 0⟩, ⟨9, 130, 9, 0⟩] 6 = .ok 50 := by decide

end Klev.C10

#print axioms Klev.C10.getByTime_ok
#print axioms Klev.C10.derive_times
#print axioms Klev.C10.index_time_spec
