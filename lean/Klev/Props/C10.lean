/-
C10 — Time lookups return the first live message at or after the given time.
-/
import Klev.Proofs.IndexSearch
namespace Klev.C10

/-- The in-segment lower bound of `index.Time` (including the `sort.Search` loop), for
every index with non-decreasing timestamps and every time. -/
theorem index_time_spec (items : List Item) (ts : Int) (hs : SortedTs items) :
    Index.time items ts = Index.timeSpec items ts :=
  Index.time_eq_spec items ts hs

example : Index.time [⟨1, 8, 5, 0⟩, ⟨3, 50, 7, 0⟩, ⟨5, 90, 7, 0⟩, ⟨9, 130, 9, 0⟩] 6 = .ok 50 := by decide

end Klev.C10

#print axioms Klev.C10.index_time_spec
