/-
C11 — Index files are derived data: always consistent, always rebuildable.
-/
import Klev.Proofs.Reach
namespace Klev.C11

/-- In every state reached by any history, every index — the file of **every** segment, not
only the newest, and every index in memory — lists exactly the offsets and byte positions
of the records of its segment, in order (`ItemsFor`). -/
theorem index_files_name_records (l : Log) (hinv : Inv l) (ops : List Op) :
    ∀ s ∈ (runOps l ops).segs,
      (∀ f, s.idxf = some f → ItemsFor s.ver s.recs f.items) ∧
      (∀ its, s.mem = some its → ItemsFor s.ver s.recs its) := by
  intro s hs
  have := (Klev.run_inv_abs l hinv ops).1.idx s hs
  exact ⟨this.idx, this.mem⟩

/-- Removing any subset of index files while closed and reopening (read-write or read-only,
any options) yields a log with the invariant and the same content — hence, by the read
theorems (C03, C04, C09, C10), the same answers to every query. -/
theorem reopen_without_index (l : Log) (hinv : Inv l) (rm : List Int) (oo : OpenOpts) :
    Inv (stepOp l (.reopen rm none false oo)) ∧ abs (stepOp l (.reopen rm none false oo)) = abs l :=
  Klev.step_inv_abs l hinv (.reopen rm none false oo)

/-- A rebuilt index is the derived one, and the derived one names the records. -/
theorem rebuilt_index_exact (p : Params) (v : Ver) (recs : List Msg) : ItemsFor v recs (derive p v recs) :=
  Klev.derive_itemsFor p v recs

end Klev.C11

#print axioms Klev.C11.index_files_name_records
#print axioms Klev.C11.reopen_without_index
#print axioms Klev.C11.rebuilt_index_exact
