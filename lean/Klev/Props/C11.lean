/-
C11 — Index files are derived data: always consistent, always rebuildable.
-/
import Klev.Proofs.Reach
import Klev.Proofs.ExtRun
import Klev.Proofs.Witness
namespace Klev.C11

/-- In every state reached by any history, every index — the file of **every** segment, not
only the newest, and every index in memory — lists exactly the offsets and byte positions
of the records of its segment, in order (`ItemsFor`). -/
theorem index_files_name_records (l : Log) (hinv : Inv l) (ops : List Op) :
    ∀ s ∈ (runOps l ops).segs,
      (∀ f, s.idxf = some f → ItemsFor s.ver s.recs f.items) ∧
      (∀ its, s.mem = some its → ItemsFor s.ver s.recs its) := by
  intro s hs
  have := (Klev.run_inv_abs l hinv ops).1.idx s hs
  exact ⟨this.idx, this.mem⟩

/-- Removing any subset of index files while closed and reopening (read-write or read-only,
any options) yields a log with the invariant and the same content — hence, by the read
theorems (C03, C04, C09, C10), the same answers to every query. -/
theorem reopen_without_index (l : Log) (hinv : Inv l) (rm : List Int) (oo : OpenOpts) :
    Inv (stepOp l (.reopen rm none false oo)) ∧ abs (stepOp l (.reopen rm none false oo)) = abs l :=
  Klev.step_inv_abs l hinv (.reopen rm none false oo)

/-- A rebuilt index is the derived one, and the derived one names the records. -/
theorem rebuilt_index_exact (p : Params) (v : Ver) (recs : List Msg) : ItemsFor v recs (derive p v recs) :=
  Klev.derive_itemsFor p v recs

/-- "key hashes always": with the key index configured, over any history that keeps the index
configuration, every index file and every loaded index of every segment carries the FNV-1a hashes of
exactly its segment's keys. -/
theorem index_files_key_hashes (l : Log) (hinv : Inv l) (hki : KeysInv' l) (ops : List Op)
    (hsame : SameParams l.opts.params ops) : KeysInv' (runOps l ops) :=
  Klev.keysInv'_run l hinv hki ops hsame

/-- "timestamps whenever message times never decrease": over any history whose publish times never
decrease (from the writer's carried time on), every index file and loaded index of every segment
carries exactly its segment's message times, and the content stays monotone. -/
theorem index_files_timestamps (l : Log) (hinv : Inv l) (hp : l.opts.params.times = true)
    (hti : TimesInv l) (hm : Spec.Monotone (abs l)) (hw : Int) (hc : TimeCarry l hw)
    (ops : List Op) (hsame : SameParams l.opts.params ops) (hmono : PubMono hw ops) :
    TimesInv (runOps l ops) ∧ Spec.Monotone (abs (runOps l ops)) :=
  Klev.times_run l hinv hp hti hm ops hsame
    (Klev.timesOKRun_of_pubMono l hinv hp hti hm hw hc ops hsame hmono)

end Klev.C11

/-! ### Non-vacuity: the theorems at the witness log `Witness.wL` (four segments, bases 0 2 5 8;
`Klev/Proofs/Witness.lean`) -/
section NonVacuity
open Klev Klev.Witness

example := Klev.C11.index_files_name_records l0 l0_inv ops
example := Klev.C11.index_files_name_records wL wL_inv [.reopen [0, 5] none false oo, .get 6, .delete [5]]
-- all four index files removed, reopened read-write and read-only
example := Klev.C11.reopen_without_index wL wL_inv [0, 2, 5, 8] oo
example := Klev.C11.reopen_without_index wL wL_inv [0, 2, 5, 8] ooRO

-- evaluated: after the removal only the head has an index file again (the writer creates it);
-- the lookups answer as before and rebuild the files they use
example : (stepOp wL (.reopen [0, 2, 5, 8] none false oo)).segs.map (·.idxf.isSome) = [false, false, false, true] ∧
    ((stepOp wL (.reopen [0, 2, 5, 8] none false oo)).get 4).2 = (wL.get 4).2 ∧
    ((stepOp wL (.reopen [0, 2, 5, 8] none false oo)).getByKey [1]).2 = (wL.getByKey [1]).2 ∧
    ((stepOp wL (.reopen [0, 2, 5, 8] none false oo)).getByTime 20).2 = (wL.getByTime 20).2 ∧
    ((stepOp wL (.reopen [0, 2, 5, 8] none false oo)).getByTime 20).1.segs.map (·.idxf.isSome) =
      [true, true, true, true] := by decide
example : (stepOp wL (.reopen [0, 2, 5, 8] none false ooRO)).opts.readonly = true ∧
    ((stepOp wL (.reopen [0, 2, 5, 8] none false ooRO)).consume 2 3).2 = (wL.consume 2 3).2 := by decide

-- the two index-content theorems over the witness history (from the empty directory)
example := Klev.C11.index_files_key_hashes l0 l0_inv (fun _ => Klev.keysInv_open_empty oo l0 open_l0) ops ops_same
example := Klev.C11.index_files_timestamps l0 l0_inv rfl (Klev.timesInv_open_empty oo l0 open_l0)
  (by rw [l0_abs]; exact Klev.monotone_empty) 0 l0_carry ops ops_same ops_mono

end NonVacuity

#print axioms Klev.C11.index_files_name_records
#print axioms Klev.C11.reopen_without_index
#print axioms Klev.C11.rebuilt_index_exact
#print axioms Klev.C11.index_files_key_hashes
#print axioms Klev.C11.index_files_timestamps
