/-
C12 — Delete removes only what it reports, and reports it exactly.
-/
import Klev.Proofs.Delete
namespace Klev.C12

/-- **Delete step.** On every log state satisfying the invariant, for every offset set:
`Log.delete` (target = the segment holding the lowest requested offset; survivors copied
to a rewritten segment; swap-in for reader and head segments in all their outcomes —
segment dropped, rebased to its lowest survivor, same base; head emptied, tail deleted,
head reopened) keeps the invariant and satisfies `DeleteOK`: the reported messages are a
sublist of the live ones (full original content), all were requested, the new content is
the old one minus exactly them (every other message keeps offset and content),
`NextOffset` is unchanged, the size is the sum of their storage sizes in the version of
the file they were in; relative offsets → `ErrInvalidOffset` with nothing changed; the
empty set is a no-op; deleting below the first segment reports not-found with nothing
changed; a read-only handle returns `ErrReadonly`. -/
theorem delete_step (l : Log) (hinv : Inv l) (offs : List Int) :
    Inv (l.delete offs).1 ∧
    Spec.DeleteOK l.opts.readonly l.opts.params (abs l) offs (l.delete offs).2 (abs (l.delete offs).1) :=
  Klev.delete_step l hinv offs

/-- Deleting again deletes nothing: what `DeleteOK` reports is live, and after the delete
it no longer is (immediate from the relation: `del ⊆ live`, `live' = live − del`). -/
theorem delete_twice_nothing (p : Params) (s s' s'' : Spec) (offs : List Int)
    (del del2 : List Msg) (sz sz2 : Int)
    (h1 : Spec.DeleteOK false p s offs (.ok (del, sz)) s')
    (h2 : Spec.DeleteOK false p s' offs (.ok (del2, sz2)) s'') (hne : offs ≠ [])
    (hnn : ¬ ∃ o ∈ offs, o < 0) :
    ∀ d ∈ del2, d ∉ del := by
  unfold Spec.DeleteOK at h1 h2
  simp only [Bool.false_eq_true, if_false, hne, hnn] at h1 h2
  intro d hd hd1
  have hlive' : d ∈ s'.live := h2.1.subset hd
  rw [h1.2.2.1] at hlive'
  unfold Spec.removeAll at hlive'
  rw [List.mem_filter] at hlive'
  simp [hd1] at hlive'

end Klev.C12

#print axioms Klev.C12.delete_step
#print axioms Klev.C12.delete_twice_nothing
