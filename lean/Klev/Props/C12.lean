/-
C12 — Delete removes only what it reports, and reports it exactly.
-/
import Klev.Proofs.Delete
import Klev.Proofs.DeleteMultiOK
import Klev.Proofs.Reach
import Klev.Proofs.Witness
namespace Klev.C12

/-- **Delete step.** On every log state satisfying the invariant, for every offset set:
`Log.delete` (target = the segment holding the lowest requested offset; survivors copied
to a rewritten segment; swap-in for reader and head segments in all their outcomes —
segment dropped, rebased to its lowest survivor, same base; head emptied, tail deleted,
head reopened) keeps the invariant and satisfies `DeleteOK`: the reported messages are a
sublist of the live ones (full original content), all were requested, the new content is
the old one minus exactly them (every other message keeps offset and content),
`NextOffset` is unchanged, the size is the sum of their storage sizes in the version of
the file they were in; relative offsets → `ErrInvalidOffset` with nothing changed; the
empty set is a no-op; deleting below the first segment reports not-found with nothing
changed; a read-only handle returns `ErrReadonly`. -/
theorem delete_step (l : Log) (hinv : Inv l) (offs : List Int) :
    Inv (l.delete offs).1 ∧
    Spec.DeleteOK l.opts.readonly l.opts.params (abs l) offs (l.delete offs).2 (abs (l.delete offs).1) :=
  Klev.delete_step l hinv offs

/-- Deleting again deletes nothing: what `DeleteOK` reports is live, and after the delete
it no longer is (immediate from the relation: `del ⊆ live`, `live' = live − del`). -/
theorem delete_twice_nothing (p : Params) (s s' s'' : Spec) (offs : List Int)
    (del del2 : List Msg) (sz sz2 : Int)
    (h1 : Spec.DeleteOK false p s offs (.ok (del, sz)) s')
    (h2 : Spec.DeleteOK false p s' offs (.ok (del2, sz2)) s'') (hne : offs ≠ [])
    (hnn : ¬ ∃ o ∈ offs, o < 0) :
    ∀ d ∈ del2, d ∉ del := by
  unfold Spec.DeleteOK at h1 h2
  simp only [Bool.false_eq_true, if_false, hne, hnn] at h1 h2
  intro d hd hd1
  have hlive' : d ∈ s'.live := h2.1.subset hd
  rw [h1.2.2.1] at hlive'
  unfold Spec.removeAll at hlive'
  rw [List.mem_filter] at hlive'
  simp [hd1] at hlive'

open Helpers

/-- **The quantifier "for all reachable log states".** After any history (publishes, deletes,
reads, GC, reopens) from an empty directory opened with any options, for every offset set,
`Delete` on the reached state keeps the invariant and satisfies `DeleteOK`. No hypothesis on
the state. -/
theorem delete_step_reachable (oo : OpenOpts) (ops : List Op) (offs : List Int) :
    ∃ l0, Log.open [] oo = .ok l0 ∧
      Inv ((runOps l0 ops).delete offs).1 ∧
      Spec.DeleteOK (runOps l0 ops).opts.readonly (runOps l0 ops).opts.params
        (abs (runOps l0 ops)) offs ((runOps l0 ops).delete offs).2
        (abs ((runOps l0 ops).delete offs).1) := by
  obtain ⟨l0, ho, hinv, _⟩ := Klev.reach_from_empty oo ops
  exact ⟨l0, ho, Klev.delete_step (runOps l0 ops) hinv offs⟩

/-- `delete_step` read as a case distinction: an error changes nothing; a success reports
live requested messages (a sublist of the content: full original content, offset order),
removes exactly them, keeps `NextOffset`, and the reported size lies between the sums of
their storage sizes in the two file versions. -/
theorem delete_cases (l : Log) (hinv : Inv l) (offs : List Int) :
    Inv (l.delete offs).1 ∧
    ((∃ e, (l.delete offs).2 = .err e ∧ abs (l.delete offs).1 = abs l) ∨
     (∃ del sz, (l.delete offs).2 = .ok (del, sz) ∧ del.Sublist (abs l).live ∧
        (∀ d ∈ del, d.off ∈ offs) ∧
        (abs (l.delete offs).1).live = Spec.removeAll (abs l).live del ∧
        (abs (l.delete offs).1).next = (abs l).next ∧
        Spec.sumSizes .v1 l.opts.params del ≤ sz ∧ sz ≤ Spec.sumSizes .v2 l.opts.params del)) :=
  Klev.delete_cases l hinv offs

/-- `Delete` never changes the options of the handle. -/
theorem delete_opts (l : Log) (offs : List Int) : (l.delete offs).1.opts = l.opts :=
  Klev.delete_opts l offs

/-! ### One `Delete` pass makes progress (what `DeleteOK` alone does not say) -/

/-- **Which messages one `Delete` removes.** On a read-write log, when the lowest requested
offset is the offset of a live message `m0`, `Delete` succeeds and reports *exactly* the
requested records of the segment holding `m0` — all of them, in particular `m0`.
(`DeleteOK` alone would allow the empty report.) -/
theorem delete_target (l : Log) (hinv : Inv l) (hro : l.opts.readonly = false) (offs : List Int)
    (hne : offs ≠ []) (m0 : Msg) (hm0 : m0 ∈ (abs l).live) (hoff : m0.off = minOff offs) :
    ∃ (i : Nat) (hi : i < l.segs.length) (sz : Int), m0 ∈ (l.segs[i]).recs ∧
      (l.delete offs).2 = .ok ((l.segs[i]).recs.filter (fun m => offs.contains m.off), sz) :=
  Klev.delete_target l hinv hro offs hne m0 hm0 hoff

/-- The lowest requested live message is always among the deleted ones. -/
theorem delete_lowest (l : Log) (hinv : Inv l) (hro : l.opts.readonly = false) (offs : List Int)
    (hne : offs ≠ []) (m0 : Msg) (hm0 : m0 ∈ (abs l).live) (hoff : m0.off = minOff offs) :
    ∃ del sz, (l.delete offs).2 = .ok (del, sz) ∧ m0 ∈ del :=
  Klev.delete_lowest l hinv hro offs hne m0 hm0 hoff

/-- The report of one pass is downward closed among the requested live messages: with
`m0 ∈ del` it is a non-empty initial run of them (offset sets "spanning several segments"
are served one segment per pass, lowest first). -/
theorem delete_run (l : Log) (hinv : Inv l) (hro : l.opts.readonly = false) (offs : List Int)
    (hne : offs ≠ []) (m0 : Msg) (hm0 : m0 ∈ (abs l).live) (hoff : m0.off = minOff offs) :
    ∃ del sz, (l.delete offs).2 = .ok (del, sz) ∧ m0 ∈ del ∧
      ∀ d ∈ del, ∀ x ∈ (abs l).live, x.off ∈ offs → x.off ≤ d.off → x ∈ del :=
  Klev.delete_run l hinv hro offs hne m0 hm0 hoff

/-! ### Clause "DeleteMulti over a set of live offsets removes all of them" -/

/-- **DeleteMulti, safety and completion.** For every log satisfying the invariant and every
offset list (duplicates, dead and unassigned offsets allowed): the invariant is kept; the
reported messages are exactly the messages removed (new content = old content minus them,
`NextOffset` unchanged); each was live and requested; none is reported twice; the reported
size is bracketed by the sums of their storage sizes — whether or not a pass failed. On a
read-write log, when every requested offset is the offset of a live message, no pass fails
and afterwards none of them is live. -/
theorem deleteMulti_spec (l : Log) (h : Inv l) (offs : List Int) :
    let r := Helpers.deleteMulti l offs
    Inv r.1 ∧
    ((abs r.1).live = Spec.removeAll (abs l).live r.2.msgs ∧ (abs r.1).next = (abs l).next ∧
      (∀ d ∈ r.2.msgs, d ∈ (abs l).live ∧ d.off ∈ offs) ∧ r.2.msgs.Nodup ∧
      Spec.sumSizes .v1 l.opts.params r.2.msgs ≤ r.2.size ∧
      r.2.size ≤ Spec.sumSizes .v2 l.opts.params r.2.msgs) ∧
    (l.opts.readonly = false → (∀ o ∈ offs, ∃ m ∈ (abs l).live, m.off = o) →
      r.2.err = none ∧ ∀ m ∈ (abs r.1).live, m.off ∉ offs) :=
  Klev.deleteMulti_spec l h offs

/-- **Closed form of the completed case.** On a read-write log and a set of live offsets:
no error; the new content is the old one with exactly the messages at a requested offset
filtered out; the report is exactly those messages, in offset order. -/
theorem deleteMulti_complete (l : Log) (h : Inv l) (hro : l.opts.readonly = false) (offs : List Int)
    (hlive : ∀ o ∈ offs, ∃ m ∈ (abs l).live, m.off = o) :
    let r := Helpers.deleteMulti l offs
    Inv r.1 ∧ r.2.err = none ∧
    (abs r.1).live = (abs l).live.filter (fun m => !offs.contains m.off) ∧
    (abs r.1).next = (abs l).next ∧
    (∀ d, d ∈ r.2.msgs ↔ d ∈ (abs l).live ∧ d.off ∈ offs) ∧
    r.2.msgs = (abs l).live.filter (fun m => offs.contains m.off) :=
  Klev.deleteMulti_complete l h hro offs hlive

/-- `deleteMulti_spec` on every reachable state. -/
theorem deleteMulti_spec_reachable (oo : OpenOpts) (ops : List Op) (offs : List Int) :
    ∃ l0, Log.open [] oo = .ok l0 ∧
      let l := runOps l0 ops
      let r := Helpers.deleteMulti l offs
      Inv r.1 ∧
      ((abs r.1).live = Spec.removeAll (abs l).live r.2.msgs ∧ (abs r.1).next = (abs l).next ∧
        (∀ d ∈ r.2.msgs, d ∈ (abs l).live ∧ d.off ∈ offs) ∧ r.2.msgs.Nodup ∧
        Spec.sumSizes .v1 l.opts.params r.2.msgs ≤ r.2.size ∧
        r.2.size ≤ Spec.sumSizes .v2 l.opts.params r.2.msgs) ∧
      (l.opts.readonly = false → (∀ o ∈ offs, ∃ m ∈ (abs l).live, m.off = o) →
        r.2.err = none ∧ ∀ m ∈ (abs r.1).live, m.off ∉ offs) := by
  obtain ⟨l0, ho, hinv, _⟩ := Klev.reach_from_empty oo ops
  exact ⟨l0, ho, Klev.deleteMulti_spec (runOps l0 ops) hinv offs⟩

/-- A single `Delete`, in the shape shared with `DeleteMulti` (`Removed`): the resulting log
is the old one with exactly the reported messages removed; they were live, requested, and
distinct; invariant and options kept. Holds for the error outcomes too (nothing reported,
nothing removed). Used by every `Trim*` / `Compact*` helper. -/
theorem single_delete_removed (l : Log) (h : Inv l) (offs : List Int) :
    Removed l (single (l.delete offs)).1 offs (single (l.delete offs)).2.msgs :=
  Klev.single_delete_removed l h offs

/-- "Find, then Delete / DeleteMulti" (`thenDelete`, the body of every `Trim*` and `Compact*`
helper): what it removed is what it reports, in both modes, after a `Find*` that only
loaded indexes. -/
theorem thenDelete_removed (l l1 : Log) (hld : Loaded l l1) (multi : Bool) (offs : List Int) :
    Removed l (thenDelete multi (l1, .ok offs)).1 offs (thenDelete multi (l1, .ok offs)).2.msgs :=
  Klev.thenDelete_removed l l1 hld multi offs

end Klev.C12

/-! ### Non-vacuity: the theorems at the witness log `Witness.wL` (segments `0: [0, 1]`,
`2: [2, 4]`, `5: [5, 6]`, `8: [8]`, read-write; `Klev/Proofs/Witness.lean`) -/
section NonVacuity
open Klev Klev.Witness Klev.Helpers

example := Klev.C12.delete_step wL wL_inv [4, 5]
example := Klev.C12.delete_step wL wL_inv [3]
example := Klev.C12.delete_step wRO wRO_inv [4]
-- the same set `[4, 5]` twice on the model: the first pass removes 4 (segment 2 holds the lowest
-- requested offset); the second pass targets the same segment again and removes nothing (offset 5,
-- live and requested, stays: one `Delete` serves one segment) …
example :=
  have e1 : (wL.delete [4, 5]).2 = .ok ([⟨4, 30, [6], []⟩], 69) := by decide
  have e2 : ((wL.delete [4, 5]).1.delete [4, 5]).2 = .ok ([], 0) := by decide
  Klev.C12.delete_twice_nothing wL.opts.params (abs wL) (abs (wL.delete [4, 5]).1)
    (abs ((wL.delete [4, 5]).1.delete [4, 5]).1) [4, 5] [⟨4, 30, [6], []⟩] [] 69 0
    (by have h := (Klev.delete_step wL wL_inv [4, 5]).2; rw [wL_rw, e1] at h; exact h)
    (by have h := (Klev.delete_step _ (Klev.delete_step wL wL_inv [4, 5]).1 [4, 5]).2
        rw [Klev.delete_opts, wL_rw, e2] at h; exact h)
    (by decide) (by decide)
-- … and on the L0 relation alone, with a second report that is not empty
example := Klev.C12.delete_twice_nothing ⟨true, true⟩ ⟨[⟨4, 30, [6], []⟩, ⟨5, 30, [4], [5]⟩], 9⟩
  ⟨[⟨5, 30, [4], [5]⟩], 9⟩ ⟨[], 9⟩ [4, 5] [⟨4, 30, [6], []⟩] [⟨5, 30, [4], [5]⟩] 69 70
  (by decide) (by decide) (by decide) (by decide)
example := Klev.C12.delete_cases wL wL_inv [4, 5]
example := Klev.C12.delete_step_reachable oo ops [4, 5]
example := Klev.C12.deleteMulti_spec_reachable oo ops [8, 0, 4, 4]
example := Klev.C12.delete_target wL wL_inv wL_rw [8, 6, 5] (by decide) ⟨5, 30, [4], [5]⟩ (by decide) (by decide)
example := Klev.C12.delete_lowest wL wL_inv wL_rw [8, 6, 5] (by decide) ⟨5, 30, [4], [5]⟩ (by decide) (by decide)
example := Klev.C12.delete_run wL wL_inv wL_rw [8, 6, 5] (by decide) ⟨5, 30, [4], [5]⟩ (by decide) (by decide)
example := Klev.C12.deleteMulti_spec wL wL_inv [8, 0, 4, 4, 7, 100]
example := Klev.C12.deleteMulti_complete wL wL_inv wL_rw [8, 0, 4, 4] (by decide)
example := Klev.C12.single_delete_removed wL wL_inv [4, 5]
example := Klev.C12.thenDelete_removed wL (wL.get 0).1 (Klev.get_loaded wL wL_inv 0) true [8, 0, 4]
example := Klev.C12.thenDelete_removed wL wL (Loaded.refl wL_inv) false [8, 0, 4]

-- evaluated
example : (wL.delete [8, 6, 5]).2 = .ok ([⟨5, 30, [4], [5]⟩, ⟨6, 40, [1], [6]⟩], 140) ∧
    (abs (wL.delete [8, 6, 5]).1).live.map (·.off) = [0, 1, 2, 4, 8] ∧
    (abs (wL.delete [8, 6, 5]).1).next = 9 := by decide
example : (wL.delete [3]).2 = .ok ([], 0) ∧ (wL.delete [-1]).2 = .err .invalidOffset ∧
    (wL.delete []).2 = .ok ([], 0) ∧ (wRO.delete [4]).2 = .err .readonly := by decide
-- `DeleteMulti` over live offsets only: all of them go
example : (deleteMulti wL [8, 0, 4, 4]).2.err = none ∧
    (deleteMulti wL [8, 0, 4, 4]).2.msgs.map (·.off) = [0, 4, 8] ∧
    (deleteMulti wL [8, 0, 4, 4]).2.size = 70 + 69 + 70 ∧
    (abs (deleteMulti wL [8, 0, 4, 4]).1).live.map (·.off) = [1, 2, 5, 6] ∧
    (abs (deleteMulti wL [8, 0, 4, 4]).1).next = 9 := by decide
-- NOTE (what the completion clause does not cover): with a *dead* offset in the set (7, deleted
-- earlier) the loop stops at the pass whose lowest remaining offset is 7 — that pass deletes
-- nothing — and the live requested offset 8 is left in place, with no error. This is the loop of
-- delete.go (`case len(deleted) == 0: return … nil`); `deleteMulti_spec` promises completion only
-- when every requested offset is live.
example : (deleteMulti wL [8, 0, 4, 4, 7, 100]).2.err = none ∧
    (deleteMulti wL [8, 0, 4, 4, 7, 100]).2.msgs.map (·.off) = [0, 4] ∧
    (deleteMulti wL [8, 0, 4, 4, 7, 100]).2.size = 70 + 69 ∧
    (abs (deleteMulti wL [8, 0, 4, 4, 7, 100]).1).live.map (·.off) = [1, 2, 5, 6, 8] ∧
    (abs (deleteMulti wL [8, 0, 4, 4, 7, 100]).1).next = 9 := by decide

end NonVacuity

#print axioms Klev.C12.delete_step
#print axioms Klev.C12.delete_twice_nothing
#print axioms Klev.C12.delete_step_reachable
#print axioms Klev.C12.delete_cases
#print axioms Klev.C12.delete_opts
#print axioms Klev.C12.delete_target
#print axioms Klev.C12.delete_lowest
#print axioms Klev.C12.delete_run
#print axioms Klev.C12.deleteMulti_spec
#print axioms Klev.C12.deleteMulti_complete
#print axioms Klev.C12.deleteMulti_spec_reachable
#print axioms Klev.C12.single_delete_removed
#print axioms Klev.C12.thenDelete_removed
