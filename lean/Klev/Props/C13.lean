/-
C13 — Record and index formats are stable, self-consistent and exactly sized.
-/
import Klev.Documented
import Klev.Proofs.Codec
import Klev.Proofs.ScanProofs
namespace Klev.C13

/-- The layout constants of the current source (regenerated on every run, evaluated by the
Go compiler) are the documented ones: magic `FF "klevs"` / `FF "klevi"`, 8-byte file
headers, 28-byte record headers, 8-byte trailer `DEADBEEFFEEDFACE`, CRC-32C (Castagnoli),
version markers 255/1, index flag bits times=1 keys=2, 64 MiB body bound, relative
offsets −2/−1/−3, item sizes 16/24/24/32. -/
theorem consts_documented : Documented.generated = Documented.documented := by decide

/-- Any message (arbitrary key/value bytes incl. empty, any int64 microsecond time, any
int64 offset, body ≤ 64 MiB) written in V1 or V2 reads back identical from the position
the writer reported, whatever precedes and follows it in the file; the reader's next
position is the position plus the record size. -/
theorem dec_enc (v : Ver) (pre post : List UInt8) (m : Msg) (h : m.Encodable) :
    dec v (pre ++ enc v m ++ post) pre.length = .ok m (pre.length + (enc v m).length) :=
  Klev.dec_enc v pre post m h

/-- `Size(m)` is exactly the number of bytes a message adds to a segment log. -/
theorem size_exact (v : Ver) (m : Msg) : ((enc v m).length : Int) = recSize v m :=
  Klev.enc_length v m

/-- Records are laid out back to back: scanning a file made of the header and encoded
records returns exactly those records, at exactly the positions of the model's layout
(header + prefix sums of sizes), and ends cleanly at the end of the file. -/
theorem back_to_back (v : Ver) (ms : List Msg) (h : ∀ m ∈ ms, m.Encodable) :
    (scan v (render v ms)).fin = .clean ∧ (scan v (render v ms)).recs.map (·.2) = ms ∧
    (scan v (render v ms)).recs.map (fun pm => ((pm.1 : Int), pm.2)) = layout v ms ∧
    (scan v (render v ms)).stop = (render v ms).length :=
  Klev.scan_render v ms h

/-- Index items of the four layouts read back what the layout stores. -/
theorem item_round_trip (p : Params) (it : Item)
    (ho1 : -(two63 : Int) ≤ it.off) (ho2 : it.off < (two63 : Int))
    (hp1 : -(two63 : Int) ≤ it.pos) (hp2 : it.pos < (two63 : Int))
    (hts : p.times = true → -(two63 : Int) ≤ it.ts ∧ it.ts < (two63 : Int)) :
    decItem p (encItem p it) =
      { it with ts := if p.times then it.ts else 0, kh := if p.keys then it.kh else 0 } :=
  Klev.decItem_encItem p it ho1 ho2 hp1 hp2 hts

theorem item_size (p : Params) (it : Item) : ((encItem p it).length : Int) = p.size :=
  Klev.encItem_length p it

-- non-vacuity
example : (⟨5, -3, [1, 2], []⟩ : Msg).Encodable := by
  simp [Msg.Encodable, two63, maxBody, Gen.msgMaxMessageBodySize]

end Klev.C13

#print axioms Klev.C13.consts_documented
#print axioms Klev.C13.dec_enc
#print axioms Klev.C13.size_exact
#print axioms Klev.C13.back_to_back
#print axioms Klev.C13.item_round_trip
#print axioms Klev.C13.item_size
