/-
C13 — Record and index formats are stable, self-consistent and exactly sized.
-/
import Klev.Documented
import Klev.Proofs.Codec
import Klev.Proofs.ScanProofs
import Klev.Proofs.StatOK
import Klev.Proofs.MemIdxInv
import Klev.Proofs.RecoverCheck
import Klev.Proofs.Witness
import Klev.Proofs.WitnessBytes
namespace Klev.C13

/-- The layout constants of the current source (regenerated on every run, evaluated by the
Go compiler) are the documented ones: magic `FF "klevs"` / `FF "klevi"`, 8-byte file
headers, 28-byte record headers, 8-byte trailer `DEADBEEFFEEDFACE`, CRC-32C (Castagnoli),
version markers 255/1, index flag bits times=1 keys=2, 64 MiB body bound, relative
offsets −2/−1/−3, item sizes 16/24/24/32. -/
theorem consts_documented : Documented.generated = Documented.documented := by decide

/-- Any message (arbitrary key/value bytes incl. empty, any int64 microsecond time, any
int64 offset, body ≤ 64 MiB) written in V1 or V2 reads back identical from the position
the writer reported, whatever precedes and follows it in the file; the reader's next
position is the position plus the record size. -/
theorem dec_enc (v : Ver) (pre post : List UInt8) (m : Msg) (h : m.Encodable) :
    dec v (pre ++ enc v m ++ post) pre.length = .ok m (pre.length + (enc v m).length) :=
  Klev.dec_enc v pre post m h

/-- `Size(m)` is exactly the number of bytes a message adds to a segment log. -/
theorem size_exact (v : Ver) (m : Msg) : ((enc v m).length : Int) = recSize v m :=
  Klev.enc_length v m

/-- Records are laid out back to back: scanning a file made of the header and encoded
records returns exactly those records, at exactly the positions of the model's layout
(header + prefix sums of sizes), and ends cleanly at the end of the file. -/
theorem back_to_back (v : Ver) (ms : List Msg) (h : ∀ m ∈ ms, m.Encodable) :
    (scan v (render v ms)).fin = .clean ∧ (scan v (render v ms)).recs.map (·.2) = ms ∧
    (scan v (render v ms)).recs.map (fun pm => ((pm.1 : Int), pm.2)) = layout v ms ∧
    (scan v (render v ms)).stop = (render v ms).length :=
  Klev.scan_render v ms h

/-- Index items of the four layouts read back what the layout stores. -/
theorem item_round_trip (p : Params) (it : Item)
    (ho1 : -(two63 : Int) ≤ it.off) (ho2 : it.off < (two63 : Int))
    (hp1 : -(two63 : Int) ≤ it.pos) (hp2 : it.pos < (two63 : Int))
    (hts : p.times = true → -(two63 : Int) ≤ it.ts ∧ it.ts < (two63 : Int)) :
    decItem p (encItem p it) =
      { it with ts := if p.times then it.ts else 0, kh := if p.keys then it.kh else 0 } :=
  Klev.decItem_encItem p it ho1 ho2 hp1 hp2 hts

theorem item_size (p : Params) (it : Item) : ((encItem p it).length : Int) = p.size :=
  Klev.encItem_length p it

-- non-vacuity
example : (⟨5, -3, [1, 2], []⟩ : Msg).Encodable := by
  simp [Msg.Encodable, two63, maxBody, Gen.msgMaxMessageBodySize]

/-! ### Clause "Stat reports exactly the number of live messages and the total size of all segment files"

`MemIdx l` ("a segment whose index is in memory has an index file") is the one extra clause
the `Stat` theorem needs beyond `Inv`; `segFileSize p s` is the number of bytes of the files
of one segment (log file + index file). Below: the statement on a state with `Inv` and
`MemIdx`, then `MemIdx` as an invariant of the API, then the statement on every state
reachable from a read-write open of an empty directory ("Stat over all C01 states"). -/

/-- `reader.Stat` on one segment: it reports one segment, exactly the number of records, and
exactly the size of the segment's two files — after rebuilding the index file if it was
missing; base, version, records and index consistency are kept, and a segment that already
has its index file is not changed at all. -/
theorem segStat_spec (o : Opts) (s : Seg) (hidx : IdxOK s)
    (hm : s.mem.isSome = true → s.idxf.isSome = true) :
    (∃ f, (segStat o s).1.idxf = some f) ∧
      (segStat o s).2 = some ⟨1, (s.recs.length : Int), segFileSize o.params (segStat o s).1⟩ ∧
      (segStat o s).1.base = s.base ∧ (segStat o s).1.ver = s.ver ∧
      (segStat o s).1.recs = s.recs ∧ IdxOK (segStat o s).1 ∧
      ((segStat o s).1.mem.isSome = true → (segStat o s).1.idxf.isSome = true) ∧
      (s.idxf.isSome = true → (segStat o s).1 = s) :=
  Klev.segStat_spec o s hidx hm

/-- **Stat, exactly.** On a log satisfying the invariant (and `MemIdx`): `Stat` succeeds;
`Messages` is exactly the number of live messages; `Segments` is exactly the number of
segments; `Size` is exactly the sum over all segments of the sizes of their files (log +
index, every index file present afterwards); and the call only loads / rebuilds indexes
(`Loaded`: invariant, content, options kept). -/
theorem stat_spec (l : Log) (h : Inv l) (hmi : MemIdx l) :
    ∃ st, (l.stat).2 = .ok st ∧ st.messages = ((abs l).live.length : Int) ∧
      st.segments = (l.segs.length : Int) ∧
      Loaded l (l.stat).1 ∧ MemIdx (l.stat).1 ∧ (∀ s ∈ (l.stat).1.segs, s.idxf.isSome = true) ∧
      st.size = ((l.stat).1.segs.map (segFileSize l.opts.params)).sum :=
  Klev.stat_spec l h hmi

/-- The L0 relation of the property (`Spec.StatOK`: message count exact, at least one
segment) follows. -/
theorem stat_ok (l : Log) (h : Inv l) (hmi : MemIdx l) : Spec.StatOK (abs l) (l.stat).2 :=
  Klev.stat_ok l h hmi

/-- On a read-write log satisfying `Inv` the head segment satisfies the `MemIdx` clause. -/
theorem memIdx_head (l : Log) (h : Inv l) (hro : l.opts.readonly = false) :
    ∀ hd, l.segs.getLast? = some hd → (hd.mem.isSome = true → hd.idxf.isSome = true) :=
  Klev.memIdx_head l h hro

/-- Every `Open` except the read-only open of an empty directory establishes `MemIdx`. -/
theorem open_memIdx (disk : List SegDisk) (oo : OpenOpts) (l : Log) (ho : Log.open disk oo = .ok l)
    (hne : disk ≠ [] ∨ oo.opts.readonly = false) : MemIdx l :=
  Klev.open_memIdx disk oo l ho hne

/-- Every API step (Publish, Delete, Consume, Get, GC, Close/reopen with any options, index
removal, migration, recover) keeps `MemIdx`. -/
theorem step_memIdx (l : Log) (hne : l.segs ≠ []) (hmi : MemIdx l) (op : Op) :
    MemIdx (stepOp l op) :=
  Klev.step_memIdx l hne hmi op

/-- `MemIdx` holds along every history. -/
theorem run_memIdx (l : Log) (hinv : Inv l) (hmi : MemIdx l) (ops : List Op) :
    MemIdx (runOps l ops) :=
  Klev.run_memIdx l hinv hmi ops

/-- From a read-write open of an empty directory, every reachable state satisfies `Inv` and
`MemIdx`. -/
theorem reach_memIdx (oo : OpenOpts) (hrw : oo.opts.readonly = false) (ops : List Op) :
    ∃ l0, Log.open [] oo = .ok l0 ∧ Inv (runOps l0 ops) ∧ MemIdx (runOps l0 ops) :=
  Klev.reach_memIdx oo hrw ops

/-- **Stat over all C01 states.** On every state reachable from a read-write open of an empty
directory by any history, with no hypothesis on the state: `Stat` succeeds and reports
exactly the number of live messages, exactly the number of segments and exactly the total
size of all segment files. -/
theorem stat_spec_reachable (oo : OpenOpts) (hrw : oo.opts.readonly = false) (ops : List Op) :
    ∃ l0, Log.open [] oo = .ok l0 ∧
      ∃ st, ((runOps l0 ops).stat).2 = .ok st ∧
        st.messages = ((abs (runOps l0 ops)).live.length : Int) ∧
        st.segments = ((runOps l0 ops).segs.length : Int) ∧
        Loaded (runOps l0 ops) ((runOps l0 ops).stat).1 ∧ MemIdx ((runOps l0 ops).stat).1 ∧
        (∀ s ∈ ((runOps l0 ops).stat).1.segs, s.idxf.isSome = true) ∧
        st.size = (((runOps l0 ops).stat).1.segs.map
          (segFileSize (runOps l0 ops).opts.params)).sum := by
  obtain ⟨l0, ho, hinv, hmi⟩ := Klev.reach_memIdx oo hrw ops
  exact ⟨l0, ho, Klev.stat_spec (runOps l0 ops) hinv hmi⟩

/-- The L0 relation on every such reachable state. -/
theorem stat_ok_reachable (oo : OpenOpts) (hrw : oo.opts.readonly = false) (ops : List Op) :
    ∃ l0, Log.open [] oo = .ok l0 ∧
      Spec.StatOK (abs (runOps l0 ops)) ((runOps l0 ops).stat).2 := by
  obtain ⟨l0, ho, hinv, hmi⟩ := Klev.reach_memIdx oo hrw ops
  exact ⟨l0, ho, Klev.stat_ok (runOps l0 ops) hinv hmi⟩

/-- The log-file term of `segFileSize` is a byte count: the model's `logSize` of a segment's
records is exactly the length of the file that holds them (header + records back to back),
in both versions. -/
theorem logSize_is_file_length (v : Ver) (ms : List Msg) :
    ((render v ms).length : Int) = logSize v ms :=
  Klev.render_length_logSize v ms

end Klev.C13

/-! ### Non-vacuity

Byte level: the messages `Witness.wMs` and `Witness.wM` (`Klev/Proofs/WitnessBytes.lean`). Record
level: the witness log `Witness.wL` (four segments, seven live messages, `Inv` and `MemIdx`
obtained from the reachability theorems; `Klev/Proofs/Witness.lean`), the same files with all
index files removed, and the same files opened read-only (`Witness.wRO`). -/
section NonVacuity
open Klev Klev.Witness

example := Klev.C13.dec_enc .v2 [7, 7] [5] wM wM_enc
example := Klev.C13.dec_enc .v1 (render .v1 wMs) [] wM wM_enc
example := Klev.C13.back_to_back .v2 wMs wMs_enc
example := Klev.C13.back_to_back .v1 wMs wMs_enc
example := Klev.C13.item_round_trip ⟨true, true⟩ ⟨4, 122, 30, 12638150916671911033⟩
  (by decide) (by decide) (by decide) (by decide) (fun _ => by decide)
example := Klev.C13.item_round_trip ⟨false, true⟩ ⟨4, 122, -30, 12638150916671911033⟩
  (by decide) (by decide) (by decide) (by decide) (fun h => nomatch h)

-- a segment of `wL` with its index file, and one whose index file was removed while closed
example := Klev.C13.segStat_spec wL.opts (wL.segs[1]'(by decide)) (wL_inv.idx _ (List.getElem_mem _))
  (wL_memIdx _ (List.getElem_mem _))
example := Klev.C13.segStat_spec oo.opts ((stepOp wL (.reopen [0, 2, 5, 8] none false oo)).segs[1]'(by decide))
  ((Klev.step_inv_abs wL wL_inv (.reopen [0, 2, 5, 8] none false oo)).1.idx _ (List.getElem_mem _))
  (Klev.step_memIdx wL (Klev.segs_ne_nil_of_inv wL wL_inv) wL_memIdx (.reopen [0, 2, 5, 8] none false oo) _
    (List.getElem_mem _))
example := Klev.C13.stat_spec wL wL_inv wL_memIdx
example := Klev.C13.stat_spec wRO wRO_inv wRO_memIdx
example := Klev.C13.stat_ok wL wL_inv wL_memIdx
example := Klev.C13.memIdx_head wL wL_inv wL_rw
example : MemIdx l0 := Klev.C13.open_memIdx [] oo l0 open_l0 (Or.inr rfl)
example : MemIdx wRO := Klev.C13.open_memIdx wL.disk ooRO wRO open_wRO (Or.inl (by decide))
example := Klev.C13.step_memIdx wL (Klev.segs_ne_nil_of_inv wL wL_inv) wL_memIdx (.delete [5, 6])
example : MemIdx wL := Klev.C13.run_memIdx l0 l0_inv (Klev.open_memIdx [] oo l0 open_l0 (Or.inr rfl)) ops
example := Klev.C13.run_memIdx wL wL_inv wL_memIdx [.reopen [0, 2, 5, 8] none false oo, .get 4, .gc]
example := Klev.C13.reach_memIdx oo rfl ops
example := Klev.C13.stat_spec_reachable oo rfl ops
example := Klev.C13.stat_ok_reachable oo rfl ops

-- evaluated: 4 segments, 7 messages; 553 bytes = log files 84 + 83 + 84 + 46, index files
-- (8 + 2·32)·3 + (8 + 32); the same after all index files were removed (Stat rebuilds them), and
-- through the read-only handle
example : (wL.stat).2 = .ok ⟨4, 7, 553⟩ ∧
    ((stepOp wL (.reopen [0, 2, 5, 8] none false oo)).stat).2 = .ok ⟨4, 7, 553⟩ ∧
    (wRO.stat).2 = .ok ⟨4, 7, 553⟩ := by decide
example : (wL.segs.map (fun s => (logSize s.ver s.recs, s.idxf.map (idxSize wL.opts.params)))) =
    [(84, some 72), (83, some 72), (84, some 72), (46, some 40)] := by decide
example : (segStat wL.opts (wL.segs[1]'(by decide))).2 = some ⟨1, 2, 155⟩ := by decide
example : dec .v2 ([7, 7] ++ enc .v2 wM ++ [5]) 2 = .ok wM 41 := by decide +kernel
example : decItem ⟨true, true⟩ (encItem ⟨true, true⟩ ⟨4, 122, 30, 12638150916671911033⟩) =
    ⟨4, 122, 30, 12638150916671911033⟩ := by decide +kernel

end NonVacuity

#print axioms Klev.C13.consts_documented
#print axioms Klev.C13.dec_enc
#print axioms Klev.C13.size_exact
#print axioms Klev.C13.back_to_back
#print axioms Klev.C13.item_round_trip
#print axioms Klev.C13.item_size
#print axioms Klev.C13.segStat_spec
#print axioms Klev.C13.stat_spec
#print axioms Klev.C13.stat_ok
#print axioms Klev.C13.memIdx_head
#print axioms Klev.C13.open_memIdx
#print axioms Klev.C13.step_memIdx
#print axioms Klev.C13.run_memIdx
#print axioms Klev.C13.reach_memIdx
#print axioms Klev.C13.stat_spec_reachable
#print axioms Klev.C13.stat_ok_reachable
#print axioms Klev.C13.logSize_is_file_length
