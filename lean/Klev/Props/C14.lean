/-
C14 — A damaged record is never returned as data.
-/
import Klev.Proofs.CrcAlgebra
import Klev.Proofs.ScanProofs
import Klev.Proofs.Damage
import Klev.Proofs.DamageFile
import Klev.Proofs.TornAppend
import Klev.Proofs.WitnessBytes
namespace Klev.C14

/-- Any change confined to at most 4 consecutive bytes of the bytes a CRC covers changes the
CRC-32C — unconditionally (algebra of the register: the bit step is GF(2)-linear and
injective because the reflected polynomial has its top bit set). So an overwrite of ≤ 4
bytes inside offset / time / key / value / trailer of a V2 record, or inside key/value of a
V1 record, is always detected by the checksum comparison. -/
theorem small_damage_changes_crc (pre post d1 d2 : List UInt8) (hl : d1.length = d2.length)
    (h4 : d1.length ≤ 4) (hne : d1 ≠ d2) :
    crc32c (pre ++ d1 ++ post) ≠ crc32c (pre ++ d2 ++ post) :=
  Klev.crc_burst4 pre post d1 d2 hl h4 hne

/-- A single damaged byte (in particular any single-bit flip) is always detected. -/
theorem single_byte_changes_crc (pre post : List UInt8) (x y : UInt8) (h : x ≠ y) :
    crc32c (pre ++ x :: post) ≠ crc32c (pre ++ y :: post) :=
  Klev.crc_single_byte pre post x y h

/-- The CRC-32C model is the standard one (RFC 3720 test vector, `"123456789"` check value). -/
theorem crc_vectors :
    crc32c (List.replicate 32 0) = 0x8A9136AA#32 ∧
    crc32c [0x31,0x32,0x33,0x34,0x35,0x36,0x37,0x38,0x39] = 0xE3069283#32 :=
  ⟨Klev.crc32c_rfc3720_zeros, Klev.crc32c_check⟩

/-- A file cut inside a record header is an error, not an end of data. -/
theorem cut_in_header_is_error (v : Ver) (b : List UInt8) (pos : Nat) (h1 : pos < b.length)
    (h2 : b.length < pos + 28) : dec v b pos = .bad .shortHeader :=
  Klev.dec_shortHeader v b pos h1 h2

/-- **An overwritten V2 record is never returned as data** (≤ 4 consecutive bytes anywhere in
offset / time / key / value / trailer): the reader answers with a CRC error, whatever
surrounds the record in the file. (The CRC comparison comes before the trailer comparison.) -/
theorem v2_body_damage (pre post : List UInt8) (m : Msg) (h : m.Encodable)
    (a d1 d2 z : List UInt8) (hsplit : v2Body m = a ++ d1 ++ z)
    (hl : d1.length = d2.length) (h4 : d1.length ≤ 4) (hne : d1 ≠ d2)
    (hlenFields : a.length + d1.length ≤ 16 ∨ 24 ≤ a.length) :
    dec .v2 (pre ++ crcBytes (v2Body m) ++ (a ++ d2 ++ z) ++ post) pre.length = .bad .crc :=
  Klev.v2_body_damage pre post m h a d1 d2 z hsplit hl h4 hne hlenFields

/-- Any change of the stored checksum itself is detected. -/
theorem v2_crc_field_damage (pre post : List UInt8) (m : Msg) (h : m.Encodable) (c' : List UInt8)
    (hc : c'.length = 4) (hne : c' ≠ crcBytes (v2Body m)) :
    dec .v2 (pre ++ c' ++ v2Body m ++ post) pre.length = .bad .crc :=
  Klev.v2_crc_field_damage pre post m h c' hc hne

/-- Every single changed byte (hence every single-bit flip) outside the two length fields. -/
theorem v2_body_byte_damage (pre post : List UInt8) (m : Msg) (h : m.Encodable)
    (a z : List UInt8) (x y : UInt8) (hsplit : v2Body m = a ++ x :: z) (hxy : x ≠ y)
    (hlenFields : a.length + 1 ≤ 16 ∨ 24 ≤ a.length) :
    dec .v2 (pre ++ crcBytes (v2Body m) ++ (a ++ y :: z) ++ post) pre.length = .bad .crc :=
  Klev.v2_body_byte_damage pre post m h a z x y hsplit hxy hlenFields

/-- Records whose bytes were not touched read back identically whatever was done to the bytes
before (same length) and after them. -/
theorem untouched_record_reads_back (v : Ver) (pre pre' post post' : List UInt8) (m : Msg)
    (h : m.Encodable) (hp : pre'.length = pre.length) :
    dec v (pre' ++ enc v m ++ post') pre.length = .ok m (pre.length + (enc v m).length) :=
  Klev.untouched_record_reads_back v pre pre' post post' m h hp

/-- A file cut anywhere inside a record (both formats): end of data / short header / short
data, never a record. -/
theorem cut_record_never_parses (v : Ver) (pre : List UInt8) (m : Msg) (h : m.Encodable) (j : Nat)
    (hj : j < (enc v m).length) :
    ∀ m' n, dec v (pre ++ (enc v m).take j) pre.length ≠ .ok m' n :=
  Klev.torn_record_not_parsed v pre m h j hj

/-! ### the whole file, read through the intact positions of its index -/

/-- Every record of an undamaged V2 log reads back from the position its index holds. -/
theorem file_reads (ms : List Msg) (h : ∀ m ∈ ms, m.Encodable) (j : Nat) (hj : j < ms.length) :
    dec .v2 (render .v2 ms) (render .v2 (ms.take j)).length =
      .ok ms[j] (render .v2 (ms.take (j + 1))).length :=
  Klev.file_reads ms h j hj

/-- **One record overwritten in place** (≤ 4 consecutive bytes of its body outside the length fields): read
through the same positions, the overwritten record is an error and *every other record of the file reads back
unchanged* — "every read call whose answer would include an overwritten record fails … the others return
what they returned before", at the level of one segment file. -/
theorem damaged_file_reads (ms : List Msg) (h : ∀ m ∈ ms, m.Encodable) (i : Nat)
    (hi : i < ms.length) (a d1 d2 z : List UInt8) (hsplit : v2Body ms[i] = a ++ d1 ++ z)
    (hl : d1.length = d2.length) (h4 : d1.length ≤ 4) (hne : d1 ≠ d2)
    (hlenFields : a.length + d1.length ≤ 16 ∨ 24 ≤ a.length)
    (j : Nat) (hj : j < ms.length) :
    (damagedFile ms i hi a d2 z).length = (render .v2 ms).length ∧
    dec .v2 (damagedFile ms i hi a d2 z) (render .v2 (ms.take j)).length =
      if j = i then .bad .crc else .ok ms[j] (render .v2 (ms.take (j + 1))).length :=
  Klev.damaged_file_reads ms h i hi a d1 d2 z hsplit hl h4 hne hlenFields j hj

/-- The file cut short at any length: records wholly below the cut read back, the others never parse. -/
theorem truncated_file_reads (ms : List Msg) (h : ∀ m ∈ ms, m.Encodable) (c : Nat) (j : Nat)
    (hj : j < ms.length) :
    let f := (render .v2 ms).take c
    ((render .v2 (ms.take (j + 1))).length ≤ c →
      dec .v2 f (render .v2 (ms.take j)).length = .ok ms[j] (render .v2 (ms.take (j + 1))).length) ∧
    (c < (render .v2 (ms.take (j + 1))).length →
      ∀ m n, dec .v2 f (render .v2 (ms.take j)).length ≠ .ok m n) :=
  Klev.truncated_file_reads ms h c j hj

/-- **"no call ever returns a message that differs in any field from the one published at that offset"**:
in every file damaged in one of these ways (body burst, stored CRC, cut), whatever a read at the position of
record `j` returns as a message *is* record `j`. -/
theorem damaged_never_other (ms : List Msg) (h : ∀ m ∈ ms, m.Encodable) (f : List UInt8)
    (hf : FileDamage ms f) (j : Nat) (hj : j < ms.length) (m : Msg) (n : Nat)
    (hd : dec .v2 f (render .v2 (ms.take j)).length = .ok m n) :
    m = ms[j] ∧ n = (render .v2 (ms.take (j + 1))).length :=
  Klev.damaged_never_other ms h f hf j hj m n hd

end Klev.C14

/-! ### Non-vacuity

The theorems at concrete bytes: the message `Witness.wM` (offset 11, time −7, no key, value
`[9, 8, 7]`) and the seven messages `Witness.wMs` (`Klev/Proofs/WitnessBytes.lean`). (More
instances, with the decoder evaluated on the damaged bytes, are in `Klev/Proofs/Damage.lean`.) -/
section NonVacuity
open Klev Klev.Witness

example := Klev.C14.small_damage_changes_crc [1, 2, 3] [4, 5] [10, 11, 12, 13] [10, 99, 12, 14] rfl
  (by decide) (by decide)
example := Klev.C14.single_byte_changes_crc [1, 2] [3] 5 7 (by decide)
-- three stray bytes behind the 273 bytes of seven valid records
example := Klev.C14.cut_in_header_is_error .v2 (render .v2 wMs ++ [1, 2, 3]) 273
  (by rw [List.length_append, wMs_len]; decide) (by rw [List.length_append, wMs_len]; decide)
-- the value `[9, 8, 7]` overwritten by `[9, 8, 6]` (body bytes 24–26; `a` = the 24 fixed bytes)
example := Klev.C14.v2_body_damage [7, 7] [5] wM wM_enc ((v2Body wM).take 24) [9, 8, 7] [9, 8, 6]
  ((v2Body wM).drop 27) (by decide +kernel) rfl (by decide) (by decide) (Or.inr (by decide +kernel))
-- the two low bytes of the time field (body bytes 14–15)
example := Klev.C14.v2_body_damage [] [] wM wM_enc ((v2Body wM).take 14) [255, 249] [0, 0]
  ((v2Body wM).drop 16) (by decide +kernel) rfl (by decide) (by decide) (Or.inl (by decide +kernel))
example := Klev.C14.v2_crc_field_damage [7, 7] [5] wM wM_enc [0, 0, 0, 0] rfl (by decide +kernel)
-- the low byte of the offset (body byte 7): 11 → 10
example := Klev.C14.v2_body_byte_damage [7, 7] [5] wM wM_enc ((v2Body wM).take 7) ((v2Body wM).drop 8) 11 10
  (by decide +kernel) (by decide) (Or.inl (by decide +kernel))
example := Klev.C14.untouched_record_reads_back .v2 [1, 2, 3] [9, 9, 9] [4] [8, 8] wM wM_enc rfl
example := Klev.C14.cut_record_never_parses .v1 (render .v1 wMs) wM wM_enc 30 (by rw [wM_len.2]; decide)

-- evaluated: the decoder on the damaged record
example : dec .v2 ([7, 7] ++ crcBytes (v2Body wM) ++ ((v2Body wM).take 24 ++ [9, 8, 6] ++ (v2Body wM).drop 27) ++ [5]) 2 =
    .bad .crc := by decide +kernel
example : crc32c ([1, 2, 3] ++ [10, 11, 12, 13] ++ [4, 5]) ≠ crc32c ([1, 2, 3] ++ [10, 99, 12, 14] ++ [4, 5]) := by
  decide +kernel

end NonVacuity

#print axioms Klev.C14.small_damage_changes_crc
#print axioms Klev.C14.single_byte_changes_crc
#print axioms Klev.C14.crc_vectors
#print axioms Klev.C14.cut_in_header_is_error
#print axioms Klev.C14.v2_body_damage
#print axioms Klev.C14.v2_crc_field_damage
#print axioms Klev.C14.v2_body_byte_damage
#print axioms Klev.C14.untouched_record_reads_back
#print axioms Klev.C14.cut_record_never_parses
#print axioms Klev.C14.file_reads
#print axioms Klev.C14.damaged_file_reads
#print axioms Klev.C14.truncated_file_reads
#print axioms Klev.C14.damaged_never_other
