/-
C14 — A damaged record is never returned as data.
-/
import Klev.Proofs.CrcAlgebra
import Klev.Proofs.ScanProofs
import Klev.Proofs.Damage
import Klev.Proofs.TornAppend
namespace Klev.C14

/-- Any change confined to at most 4 consecutive bytes of the bytes a CRC covers changes the
CRC-32C — unconditionally (algebra of the register: the bit step is GF(2)-linear and
injective because the reflected polynomial has its top bit set). So an overwrite of ≤ 4
bytes inside offset / time / key / value / trailer of a V2 record, or inside key/value of a
V1 record, is always detected by the checksum comparison. -/
theorem small_damage_changes_crc (pre post d1 d2 : List UInt8) (hl : d1.length = d2.length)
    (h4 : d1.length ≤ 4) (hne : d1 ≠ d2) :
    crc32c (pre ++ d1 ++ post) ≠ crc32c (pre ++ d2 ++ post) :=
  Klev.crc_burst4 pre post d1 d2 hl h4 hne

/-- A single damaged byte (in particular any single-bit flip) is always detected. -/
theorem single_byte_changes_crc (pre post : List UInt8) (x y : UInt8) (h : x ≠ y) :
    crc32c (pre ++ x :: post) ≠ crc32c (pre ++ y :: post) :=
  Klev.crc_single_byte pre post x y h

/-- The CRC-32C model is the standard one (RFC 3720 test vector, `"123456789"` check value). -/
theorem crc_vectors :
    crc32c (List.replicate 32 0) = 0x8A9136AA#32 ∧
    crc32c [0x31,0x32,0x33,0x34,0x35,0x36,0x37,0x38,0x39] = 0xE3069283#32 :=
  ⟨Klev.crc32c_rfc3720_zeros, Klev.crc32c_check⟩

/-- A file cut inside a record header is an error, not an end of data. -/
theorem cut_in_header_is_error (v : Ver) (b : List UInt8) (pos : Nat) (h1 : pos < b.length)
    (h2 : b.length < pos + 28) : dec v b pos = .bad .shortHeader :=
  Klev.dec_shortHeader v b pos h1 h2

/-- **An overwritten V2 record is never returned as data** (≤ 4 consecutive bytes anywhere in
offset / time / key / value / trailer): the reader answers with a CRC error, whatever
surrounds the record in the file. (The CRC comparison comes before the trailer comparison.) -/
theorem v2_body_damage (pre post : List UInt8) (m : Msg) (h : m.Encodable)
    (a d1 d2 z : List UInt8) (hsplit : v2Body m = a ++ d1 ++ z)
    (hl : d1.length = d2.length) (h4 : d1.length ≤ 4) (hne : d1 ≠ d2)
    (hlenFields : a.length + d1.length ≤ 16 ∨ 24 ≤ a.length) :
    dec .v2 (pre ++ crcBytes (v2Body m) ++ (a ++ d2 ++ z) ++ post) pre.length = .bad .crc :=
  Klev.v2_body_damage pre post m h a d1 d2 z hsplit hl h4 hne hlenFields

/-- Any change of the stored checksum itself is detected. -/
theorem v2_crc_field_damage (pre post : List UInt8) (m : Msg) (h : m.Encodable) (c' : List UInt8)
    (hc : c'.length = 4) (hne : c' ≠ crcBytes (v2Body m)) :
    dec .v2 (pre ++ c' ++ v2Body m ++ post) pre.length = .bad .crc :=
  Klev.v2_crc_field_damage pre post m h c' hc hne

/-- Every single changed byte (hence every single-bit flip) outside the two length fields. -/
theorem v2_body_byte_damage (pre post : List UInt8) (m : Msg) (h : m.Encodable)
    (a z : List UInt8) (x y : UInt8) (hsplit : v2Body m = a ++ x :: z) (hxy : x ≠ y)
    (hlenFields : a.length + 1 ≤ 16 ∨ 24 ≤ a.length) :
    dec .v2 (pre ++ crcBytes (v2Body m) ++ (a ++ y :: z) ++ post) pre.length = .bad .crc :=
  Klev.v2_body_byte_damage pre post m h a z x y hsplit hxy hlenFields

/-- Records whose bytes were not touched read back identically whatever was done to the bytes
before (same length) and after them. -/
theorem untouched_record_reads_back (v : Ver) (pre pre' post post' : List UInt8) (m : Msg)
    (h : m.Encodable) (hp : pre'.length = pre.length) :
    dec v (pre' ++ enc v m ++ post') pre.length = .ok m (pre.length + (enc v m).length) :=
  Klev.untouched_record_reads_back v pre pre' post post' m h hp

/-- A file cut anywhere inside a record (both formats): end of data / short header / short
data, never a record. -/
theorem cut_record_never_parses (v : Ver) (pre : List UInt8) (m : Msg) (h : m.Encodable) (j : Nat)
    (hj : j < (enc v m).length) :
    ∀ m' n, dec v (pre ++ (enc v m).take j) pre.length ≠ .ok m' n :=
  Klev.torn_record_not_parsed v pre m h j hj

end Klev.C14

#print axioms Klev.C14.small_damage_changes_crc
#print axioms Klev.C14.single_byte_changes_crc
#print axioms Klev.C14.crc_vectors
#print axioms Klev.C14.cut_in_header_is_error
#print axioms Klev.C14.v2_body_damage
#print axioms Klev.C14.v2_crc_field_damage
#print axioms Klev.C14.v2_body_byte_damage
#print axioms Klev.C14.untouched_record_reads_back
#print axioms Klev.C14.cut_record_never_parses
