/-
C15 — Trim helpers remove exactly the oldest messages the bound requires.
The helpers are client loops over the API (`Consume(offset, 32)` from `OffsetOldest`, a
stop rule, then Delete / DeleteMulti); the theorems are about those loops run on the L1
model, and use only the read theorems (`consume_ok`) and the invariant.
-/
import Klev.Proofs.HelpersOK
namespace Klev.C15

/-- The cursor loop under every helper: iterating Consume from `OffsetOldest` with any
`maxCount ≥ 1` returns exactly the live messages, each once, and ends at `NextOffset`. -/
theorem scan_visits_all (l : Log) (h : Inv l) (mc : Nat) (hmc : 1 ≤ mc) (fuel : Nat)
    (hfuel : (abs l).live.length + 2 ≤ fuel) :
    ∃ l', scanAll mc fuel l offsetOldest [] = (l', .ok ((abs l).next, (abs l).live)) ∧ Inv l' ∧ abs l' = abs l :=
  Klev.scan_visits_all l h mc hmc fuel hfuel

/-- `FindByOffset` selects exactly the live offsets below the bound (`OffsetNewest` = all,
`OffsetOldest` = none): a prefix of the live sequence and nothing else; the loop
terminates; the log's content is untouched. -/
theorem findByOffset_ok (l : Log) (h : Inv l) (before : Int) (hb : -4 < before) :
    Spec.FindByOffsetOK (abs l) before (Helpers.findByOffset l before).2 ∧
    Inv (Helpers.findByOffset l before).1 ∧ abs (Helpers.findByOffset l before).1 = abs l :=
  Klev.findByOffset_ok l h before hb

/-- `FindByAge` selects a prefix of the live sequence containing no message newer than the
given time. -/
theorem findByAge_prefix (l : Log) (h : Inv l) (t : Int) :
    match (Helpers.findByAge l t).2 with
    | .ok offs => (∃ n, Spec.SameSet offs (Spec.offsOf ((abs l).live.take n))) ∧
        (∀ m ∈ (abs l).live, m.off ∈ offs → m.time ≤ t)
    | .err _ => True :=
  Klev.findByAge_prefix l h t

end Klev.C15

#print axioms Klev.C15.scan_visits_all
#print axioms Klev.C15.findByOffset_ok
#print axioms Klev.C15.findByAge_prefix
