/-
C15 — Trim helpers remove exactly the oldest messages the bound requires.
The helpers are client loops over the API (`Consume(offset, 32)` from `OffsetOldest`, a
stop rule, then Delete / DeleteMulti); the theorems are about those loops run on the L1
model, and use only the read theorems (`consume_ok`) and the invariant.
-/
import Klev.Proofs.HelpersOK
import Klev.Proofs.FindByAgeMono
import Klev.Proofs.TrimFind
import Klev.Proofs.TrimsOK
import Klev.Proofs.Witness
namespace Klev.C15

/-- The cursor loop under every helper: iterating Consume from `OffsetOldest` with any
`maxCount ≥ 1` returns exactly the live messages, each once, and ends at `NextOffset`. -/
theorem scan_visits_all (l : Log) (h : Inv l) (mc : Nat) (hmc : 1 ≤ mc) (fuel : Nat)
    (hfuel : (abs l).live.length + 2 ≤ fuel) :
    ∃ l', scanAll mc fuel l offsetOldest [] = (l', .ok ((abs l).next, (abs l).live)) ∧ Inv l' ∧ abs l' = abs l :=
  Klev.scan_visits_all l h mc hmc fuel hfuel

/-- `FindByOffset` selects exactly the live offsets below the bound (`OffsetNewest` = all,
`OffsetOldest` = none): a prefix of the live sequence and nothing else; the loop
terminates; the log's content is untouched. -/
theorem findByOffset_ok (l : Log) (h : Inv l) (before : Int) (hb : -4 < before) :
    Spec.FindByOffsetOK (abs l) before (Helpers.findByOffset l before).2 ∧
    Inv (Helpers.findByOffset l before).1 ∧ abs (Helpers.findByOffset l before).1 = abs l :=
  Klev.findByOffset_ok l h before hb

/-- `FindByAge` selects a prefix of the live sequence containing no message newer than the
given time. -/
theorem findByAge_prefix (l : Log) (h : Inv l) (t : Int) :
    match (Helpers.findByAge l t).2 with
    | .ok offs => (∃ n, Spec.SameSet offs (Spec.offsOf ((abs l).live.take n))) ∧
        (∀ m ∈ (abs l).live, m.off ∈ offs → m.time ≤ t)
    | .err _ => True :=
  Klev.findByAge_prefix l h t

open Helpers

/-! ### Clause "FindBy… select a prefix of the live sequence and nothing else"

`MemIdx l` ("a segment whose index is in memory has an index file") is the extra clause the
`Stat` theorem needs; it holds in every state reachable from a read-write open (C13:
`reach_memIdx`). `FindByCount` and `FindBySize` call `Stat`. -/

/-- Closed form of `FindByOffset` for every `before ≥ -3` (`OffsetOldest`, `OffsetNewest`,
every real offset — below, inside and above the live range): exactly the offsets of the
live messages below the bound, and the call only loads indexes. -/
theorem findByOffset_eq (l : Log) (h : Inv l) (before : Int) (hb : -4 < before) :
    ∃ l', Loaded l l' ∧ findByOffset l before = (l', .ok
      (if before = offsetOldest then [] else
        Spec.offsOf ((abs l).live.filter (fun m => decide (m.off <
          (if before = offsetNewest then (abs l).next else before)))))) :=
  Klev.findByOffset_eq l h before hb

/-- Documented model artefact outside the quantifier (`before ≤ -4`, not an offset the API
defines): the model's loop is given no fuel and reports `.err .panic`, which
`FindByOffsetOK` rejects; the Go loop simply does not iterate and returns the empty set.
This is why `findByOffset_ok` carries `-4 < before`. -/
theorem findByOffset_panic (l : Log) (h : Inv l) (before : Int) (hb : before ≤ -4) :
    (findByOffset l before).2 = .err .panic ∧
      ¬ Spec.FindByOffsetOK (abs l) before (findByOffset l before).2 :=
  Klev.findByOffset_panic l h before hb

/-- **FindByCount** selects exactly the offsets of the first `n − max` live messages (none
when `n ≤ max`): a prefix and nothing else; it only loads indexes. Every `max` (negative,
below, at, above the count). -/
theorem findByCount_ok (l : Log) (h : Inv l) (hmi : MemIdx l) (max : Int) :
    Spec.FindByCountOK (abs l) max (findByCount l max).2 ∧ Loaded l (findByCount l max).1 :=
  Klev.findByCount_ok l h hmi max

/-- Closed form of `FindByCount`. -/
theorem findByCount_eq (l : Log) (h : Inv l) (hmi : MemIdx l) (max : Int) :
    ∃ l', Loaded l l' ∧ findByCount l max =
      (l', .ok (Spec.offsOf ((abs l).live.take (((abs l).live.length : Int) - max).toNat))) :=
  Klev.findByCount_eq l h hmi max

/-- **FindBySize**: with `st` the result of `Stat` (whose size is exactly the total size of
all segment files), it selects the offsets of the shortest prefix of the live messages
whose estimated removal (`Size(m)` = record size in `NewSegmentsVersion` + index item size)
brings the size below `sz`; everything if that is impossible, nothing if the size is
already below. Every `sz` from 0 to above the current size. -/
theorem findBySize_ok (l : Log) (h : Inv l) (hmi : MemIdx l) (sz : Int) :
    ∃ st, (l.stat).2 = .ok st ∧
      st.size = ((l.stat).1.segs.map (segFileSize l.opts.params)).sum ∧
      Spec.FindBySizeOK (abs l) (fun m => recSize l.opts.nsv m + l.opts.params.size) st.size sz
        (findBySize l sz).2 ∧
      Loaded l (findBySize l sz).1 :=
  Klev.findBySize_ok l h hmi sz

/-- Closed form of `FindBySize`. -/
theorem findBySize_eq (l : Log) (h : Inv l) (hmi : MemIdx l) (sz : Int) :
    ∃ st l', (l.stat).2 = .ok st ∧ Loaded l l' ∧ findBySize l sz =
      (l', .ok (Spec.offsOf (Spec.sizePrefix (sizeOf l) sz st.size (abs l).live))) :=
  Klev.findBySize_eq l h hmi sz

/-- The `FindBySize` selection is a prefix, … -/
theorem sizePrefix_prefix (est : Msg → Int) (sz : Int) :
    ∀ (ms : List Msg) (total : Int), Spec.sizePrefix est sz total ms <+: ms :=
  Klev.sizePrefix_prefix est sz

/-- … it brings the estimate below `sz` or is everything ("size below the target unless the
log is empty"), … -/
theorem sizePrefix_reaches (est : Msg → Int) (sz : Int) :
    ∀ (ms : List Msg) (total : Int),
      total - ((Spec.sizePrefix est sz total ms).map est).sum < sz ∨ Spec.sizePrefix est sz total ms = ms :=
  Klev.sizePrefix_reaches est sz

/-- … and no shorter prefix does ("without removing more than the size estimate requires"):
before each selected message the estimate was still `≥ sz`. -/
theorem sizePrefix_minimal (est : Msg → Int) (sz : Int) :
    ∀ (ms : List Msg) (total : Int) (k : Nat), k < (Spec.sizePrefix est sz total ms).length →
      sz ≤ total - ((ms.take k).map est).sum :=
  Klev.sizePrefix_minimal est sz

/-- What `FindByAge` returns when it returns: the offsets of `takeWhile (time ≤ before)` of a
prefix of the live messages; it only loads indexes. -/
theorem findByAge_res (l : Log) (h : Inv l) (before : Int) :
    Loaded l (findByAge l before).1 ∧
    ∀ offs, (findByAge l before).2 = .ok offs →
      ∃ P R, P ++ R = (abs l).live ∧
        offs = Spec.offsOf (P.takeWhile (fun m => decide (m.time ≤ before))) :=
  Klev.findByAge_res l h before

/-- `FindByAge`, when it succeeds, against the L0 relation without its monotone clause
(`mono := false`): a prefix of the live sequence, no message newer than `t` selected;
invariant and content untouched. -/
theorem findByAge_ok_of_ok (l : Log) (h : Inv l) (t : Int) (offs : List Int)
    (hr : (findByAge l t).2 = .ok offs) :
    Spec.FindByAgeOK false (abs l) t (.ok offs) ∧
    Inv (findByAge l t).1 ∧ abs (findByAge l t).1 = abs l :=
  Klev.findByAge_ok_of_ok l h t offs hr

/-- **Documented failing case.** `FindByAgeOK` rejects every error, but on an *empty*
read-write log with the time index on (a state satisfying the invariant), `GetByTime`
answers `ErrInvalidOffset` (as `GetByTimeOK` allows) and `FindByAge` passes the error on:
`FindByAge`/`TrimByAge` on an empty time-indexed log returns `ErrInvalidOffset` instead of
"nothing to trim". The relation fails there for both values of `mono`; this is why
`findByAge_prefix` / `findByAge_ok_of_ok` are conditional on a successful answer. -/
theorem findByAge_empty_times :
    Inv emptyTimesLog ∧ (abs emptyTimesLog).live = [] ∧
    (findByAge emptyTimesLog 5).2 = .err .invalidOffset ∧
    ∀ mono, ¬ Spec.FindByAgeOK mono (abs emptyTimesLog) 5 (findByAge emptyTimesLog 5).2 :=
  Klev.findByAge_empty_times

/-- Edge case behind `scan_visits_all`: the L0 relation `ConsumeOK` alone would allow a
cursor started at `OffsetOldest` to be sent to `OffsetNewest` with an empty chunk on a
non-empty log; the model never does (`consume_chunk`), which is what the cursor theorem
uses beyond `consume_ok`. -/
theorem consumeOK_allows_lost_cursor :
    ∃ s : Spec, Spec.WF s ∧ s.live ≠ [] ∧
      Spec.ConsumeOK s offsetOldest 1 (.ok (offsetNewest, [])) ∧
      Spec.ConsumeOK s offsetOldest 1 (.ok (0, [])) :=
  Klev.consumeOK_allows_lost_cursor

/-! ### Clause "after the Trim…Multi call no message outside the prefix is touched and the bound holds"

`thenDelete true (findX l b)` is `TrimByXMulti`; `thenDelete false …` is `TrimByX`. -/

/-- **TrimByOffsetMulti** on a read-write log, every `before ≥ -3`: no error; `OffsetOldest`
removes nothing; otherwise, with `b` = `NextOffset` for `OffsetNewest` and `before` itself
for a real offset, afterwards **no live offset is below `b`**, exactly the live messages
below `b` were removed and reported, everything else is untouched, `NextOffset` is kept. -/
theorem trimByOffsetMulti_bound (l : Log) (h : Inv l) (hro : l.opts.readonly = false) (before : Int)
    (hb : -4 < before) :
    let r := thenDelete true (findByOffset l before)
    let b := if before = offsetNewest then (abs l).next else before
    Inv r.1 ∧ r.2.err = none ∧ (abs r.1).next = (abs l).next ∧
    (before = offsetOldest → (abs r.1).live = (abs l).live ∧ r.2.msgs = []) ∧
    (before ≠ offsetOldest →
      (abs r.1).live = (abs l).live.filter (fun m => decide (b ≤ m.off)) ∧
      (∀ m ∈ (abs r.1).live, b ≤ m.off) ∧
      (∀ d, d ∈ r.2.msgs ↔ d ∈ (abs l).live ∧ d.off < b) ∧
      r.2.msgs = (abs l).live.filter (fun m => decide (m.off < b))) :=
  Klev.trimByOffsetMulti_bound l h hro before hb

/-- `TrimByOffsetMulti(OffsetNewest)` empties the log. -/
theorem trimByOffsetMulti_newest (l : Log) (h : Inv l) (hro : l.opts.readonly = false) :
    (abs (thenDelete true (findByOffset l offsetNewest)).1).live = [] :=
  Klev.trimByOffsetMulti_newest l h hro

/-- **TrimByCountMulti** on a read-write log, every `max`: no error; exactly the first
`n − max` live messages are removed and reported, the others are untouched; for `0 ≤ max`
**exactly `min(count, max)` messages are left**. -/
theorem trimByCountMulti_bound (l : Log) (h : Inv l) (hro : l.opts.readonly = false) (hmi : MemIdx l)
    (max : Int) :
    let r := thenDelete true (findByCount l max)
    let K := (((abs l).live.length : Int) - max).toNat
    Inv r.1 ∧ r.2.err = none ∧ (abs r.1).next = (abs l).next ∧
    (abs r.1).live = (abs l).live.drop K ∧
    r.2.msgs = (abs l).live.take K ∧
    (0 ≤ max → ((abs r.1).live.length : Int) = min ((abs l).live.length : Int) max) :=
  Klev.trimByCountMulti_bound l h hro hmi max

/-- **TrimBySizeMulti** on a read-write log, every `sz`: no error; with `S` the `Stat` size
and `P` the `FindBySize` selection, exactly `P` (a prefix) is removed and reported, the rest
is untouched; **the estimate `S − Σ Size(P)` is below `sz` unless the log is now empty, and
no shorter prefix achieves that** (not more removed than the size estimate requires). -/
theorem trimBySizeMulti_bound (l : Log) (h : Inv l) (hro : l.opts.readonly = false) (hmi : MemIdx l)
    (sz : Int) :
    ∃ st, (l.stat).2 = .ok st ∧
    let r := thenDelete true (findBySize l sz)
    let P := Spec.sizePrefix (sizeOf l) sz st.size (abs l).live
    Inv r.1 ∧ r.2.err = none ∧ (abs r.1).next = (abs l).next ∧
    (abs r.1).live = (abs l).live.drop P.length ∧ P = (abs l).live.take P.length ∧
    r.2.msgs = P ∧
    (st.size - (P.map (sizeOf l)).sum < sz ∨ (abs r.1).live = []) ∧
    (∀ k, k < P.length → sz ≤ st.size - (((abs l).live.take k).map (sizeOf l)).sum) :=
  Klev.trimBySizeMulti_bound l h hro hmi sz

/-! ### Both modes, any handle: only selected messages go, and exactly the reported ones -/

/-- After a `Find*` that only loaded indexes and returned the offsets of a list `Sel` of live
messages, `thenDelete` (single `Delete` or `DeleteMulti`, any handle, whether or not a pass
fails) removes exactly what it reports, and reports only messages of `Sel`. -/
theorem thenDelete_any (l l1 : Log) (h : Inv l) (hld : Loaded l l1) (multi : Bool) (Sel : List Msg)
    (hsel : ∀ x ∈ Sel, x ∈ (abs l).live) :
    let r := thenDelete multi (l1, .ok (Spec.offsOf Sel))
    Inv r.1 ∧ (abs r.1).live = Spec.removeAll (abs l).live r.2.msgs ∧ (abs r.1).next = (abs l).next ∧
    r.2.msgs.Nodup ∧ ∀ d ∈ r.2.msgs, d ∈ Sel :=
  Klev.thenDelete_any l l1 h hld multi Sel hsel

/-- **TrimByOffset / TrimByOffsetMulti**, any handle: only live messages below the bound are
removed (none for `OffsetOldest`), and exactly the reported ones. -/
theorem trimByOffset_any (l : Log) (h : Inv l) (before : Int) (hb : -4 < before) (multi : Bool) :
    let r := thenDelete multi (findByOffset l before)
    let b := if before = offsetNewest then (abs l).next else before
    Inv r.1 ∧ (abs r.1).live = Spec.removeAll (abs l).live r.2.msgs ∧ (abs r.1).next = (abs l).next ∧
    r.2.msgs.Nodup ∧
    ∀ d ∈ r.2.msgs, d ∈ (abs l).live ∧ before ≠ offsetOldest ∧ d.off < b :=
  Klev.trimByOffset_any l h before hb multi

/-- **TrimByCount / TrimByCountMulti**, any handle: only messages among the first `n − max`
are removed, so at least `min n max` remain. -/
theorem trimByCount_any (l : Log) (h : Inv l) (hmi : MemIdx l) (max : Int) (multi : Bool) :
    let r := thenDelete multi (findByCount l max)
    let K := (((abs l).live.length : Int) - max).toNat
    Inv r.1 ∧ (abs r.1).live = Spec.removeAll (abs l).live r.2.msgs ∧ (abs r.1).next = (abs l).next ∧
    r.2.msgs.Nodup ∧ (∀ d ∈ r.2.msgs, d ∈ (abs l).live.take K) ∧
    (∀ m ∈ (abs l).live.drop K, m ∈ (abs r.1).live) :=
  Klev.trimByCount_any l h hmi max multi

/-- **TrimBySize / TrimBySizeMulti**, any handle: only messages of the `FindBySize`
selection are removed. -/
theorem trimBySize_any (l : Log) (h : Inv l) (hmi : MemIdx l) (sz : Int) (multi : Bool) :
    ∃ st, (l.stat).2 = .ok st ∧
    let r := thenDelete multi (findBySize l sz)
    Inv r.1 ∧ (abs r.1).live = Spec.removeAll (abs l).live r.2.msgs ∧ (abs r.1).next = (abs l).next ∧
    r.2.msgs.Nodup ∧ ∀ d ∈ r.2.msgs, d ∈ Spec.sizePrefix (sizeOf l) sz st.size (abs l).live :=
  Klev.trimBySize_any l h hmi sz multi

/-- **TrimByAge / TrimByAgeMulti**, any handle, whatever `FindByAge` answers (including the
error of `findByAge_empty_times`): **no message newer than the given time is removed**, only
live messages are, and exactly the reported ones; everything else is untouched. -/
theorem trimByAge_any (l : Log) (h : Inv l) (t : Int) (multi : Bool) :
    let r := thenDelete multi (findByAge l t)
    Inv r.1 ∧ (abs r.1).live = Spec.removeAll (abs l).live r.2.msgs ∧ (abs r.1).next = (abs l).next ∧
    r.2.msgs.Nodup ∧ ∀ d ∈ r.2.msgs, d ∈ (abs l).live ∧ d.time ≤ t :=
  Klev.trimByAge_any l h t multi

/-! ### The quantifier "for all reachable states" -/

/-- From a read-write open of an empty directory, after any history, `Stat` (on which
`FindByCount` / `FindBySize` rest) succeeds and counts exactly the live messages and the
segments. -/
theorem stat_reachable (oo : OpenOpts) (hrw : oo.opts.readonly = false) (ops : List Op) :
    ∃ l0, Log.open [] oo = .ok l0 ∧
      ∃ st, ((runOps l0 ops).stat).2 = .ok st ∧
        st.messages = ((abs (runOps l0 ops)).live.length : Int) ∧
        st.segments = ((runOps l0 ops).segs.length : Int) ∧
        Spec.StatOK (abs (runOps l0 ops)) ((runOps l0 ops).stat).2 :=
  Klev.stat_reachable oo hrw ops

/-- The three `Find*` selections that do not depend on times, on every state reachable from
a read-write open of an empty directory (multi-segment, with holes, after reopens …), with
no hypothesis on the state. -/
theorem finds_ok_reachable (oo : OpenOpts) (hrw : oo.opts.readonly = false) (ops : List Op) :
    ∃ l0, Log.open [] oo = .ok l0 ∧
      (∀ before, -4 < before →
        Spec.FindByOffsetOK (abs (runOps l0 ops)) before (findByOffset (runOps l0 ops) before).2) ∧
      (∀ max, Spec.FindByCountOK (abs (runOps l0 ops)) max (findByCount (runOps l0 ops) max).2) ∧
      (∀ sz, ∃ st, ((runOps l0 ops).stat).2 = .ok st ∧
        Spec.FindBySizeOK (abs (runOps l0 ops))
          (fun m => recSize (runOps l0 ops).opts.nsv m + (runOps l0 ops).opts.params.size)
          st.size sz (findBySize (runOps l0 ops) sz).2) := by
  obtain ⟨l0, ho, hinv, hmi⟩ := Klev.reach_memIdx oo hrw ops
  refine ⟨l0, ho, fun before hb => (Klev.findByOffset_ok _ hinv before hb).1,
    fun max => (Klev.findByCount_ok _ hinv hmi max).1, fun sz => ?_⟩
  obtain ⟨st, hst, _, hok, _⟩ := Klev.findBySize_ok _ hinv hmi sz
  exact ⟨st, hst, hok⟩

/-- **"when message times never decrease with offset, none older left"** — the clause of FindByAge /
TrimByAge that needs the time lookup to be right: with the invariants of the time index and
non-decreasing live times, FindByAge selects a prefix, nothing newer than `t`, and *every* message
older than `t`. -/
theorem findByAge_mono (l : Log) (hinv : Inv l) (ht : TimesInv l) (hm : Spec.Monotone (abs l))
    (hfab : FirstAtBase l) (t : Int) (offs : List Int)
    (hr : (findByAge l t).2 = .ok offs) :
    Spec.FindByAgeOK true (abs l) t (.ok offs) ∧
    Inv (findByAge l t).1 ∧ abs (findByAge l t).1 = abs l :=
  Klev.findByAge_mono l hinv ht hm hfab t offs hr

/-- … unconditionally after any history from an empty directory whose publish times never decrease
(with the time index configured). -/
theorem findByAge_mono_run (oo : OpenOpts) (xs : List OpX) (hsame : SameParamsX oo.opts.params xs)
    (hp : oo.opts.params.times = true) (hmono : PubMonoX 0 xs) (t : Int) :
    ∀ l0, Log.open [] oo = .ok l0 → ∀ offs, (findByAge (runX l0 xs) t).2 = .ok offs →
    Spec.FindByAgeOK true (abs (runX l0 xs)) t (.ok offs) ∧
    Inv (findByAge (runX l0 xs) t).1 ∧ abs (findByAge (runX l0 xs) t).1 = abs (runX l0 xs) :=
  Klev.findByAge_mono_run oo xs hsame hp hmono t

/-- FindByAge does return, except on the empty log with the time index on (the documented case). -/
theorem findByAge_mono_total (l : Log) (hinv : Inv l) (ht : TimesInv l)
    (hm : Spec.Monotone (abs l)) (hfab : FirstAtBase l) (t : Int)
    (hne : (abs l).live ≠ [] ∨ l.opts.params.times = false) :
    Spec.FindByAgeOK true (abs l) t (findByAge l t).2 ∧ Inv (findByAge l t).1 ∧ abs (findByAge l t).1 = abs l :=
  Klev.findByAge_mono_total l hinv ht hm hfab t hne

end Klev.C15

/-! ### Non-vacuity

The theorems at the witness log `Witness.wL` (segments `0: [0, 1]`, `2: [2, 4]`, `5: [5, 6]`,
`8: [8]`; times 10 20 | 20 30 | 30 40 | 50; read-write; `Inv`, `MemIdx`, `TimesInv`, `Monotone`,
`FirstAtBase` obtained from the reachability theorems), the same files through the read-only
handle `Witness.wRO`, and the extended history `Witness.xs` (`Klev/Proofs/Witness.lean`). -/
section NonVacuity
open Klev Klev.Witness Klev.Helpers

example := Klev.C15.scan_visits_all wL wL_inv 2 (by decide) 9 (by decide)
example := Klev.C15.findByOffset_ok wL wL_inv 5 (by decide)
example := Klev.C15.findByOffset_ok wL wL_inv offsetNewest (by decide)
example := Klev.C15.findByAge_prefix wL wL_inv 30
example := Klev.C15.findByOffset_eq wL wL_inv 5 (by decide)
example := Klev.C15.findByOffset_panic wL wL_inv (-4) (by decide)
example := Klev.C15.findByCount_ok wL wL_inv wL_memIdx 3
example := Klev.C15.findByCount_eq wL wL_inv wL_memIdx 3
example := Klev.C15.findBySize_ok wL wL_inv wL_memIdx 400
example := Klev.C15.findBySize_eq wL wL_inv wL_memIdx 400
example := Klev.C15.sizePrefix_minimal (sizeOf wL) 400 (abs wL).live 553 2 (by decide)
example := Klev.C15.findByAge_res wL wL_inv 30
example := Klev.C15.findByAge_ok_of_ok wL wL_inv 30 [0, 1, 2, 4] (by decide)
example := Klev.C15.trimByOffsetMulti_bound wL wL_inv wL_rw 5 (by decide)
example := Klev.C15.trimByOffsetMulti_newest wL wL_inv wL_rw
example := Klev.C15.trimByCountMulti_bound wL wL_inv wL_rw wL_memIdx 3
example := Klev.C15.trimBySizeMulti_bound wL wL_inv wL_rw wL_memIdx 400
example := Klev.C15.thenDelete_any wL (wL.get 0).1 wL_inv (Klev.get_loaded wL wL_inv 0) false
  [⟨4, 30, [6], []⟩, ⟨5, 30, [4], [5]⟩] (by decide)
example := Klev.C15.trimByOffset_any wL wL_inv 5 (by decide) false
example := Klev.C15.trimByOffset_any wRO wRO_inv 5 (by decide) true
example := Klev.C15.trimByCount_any wL wL_inv wL_memIdx 3 false
example := Klev.C15.trimByCount_any wRO wRO_inv wRO_memIdx 3 true
example := Klev.C15.trimBySize_any wL wL_inv wL_memIdx 400 false
example := Klev.C15.trimByAge_any wL wL_inv 30 true
example := Klev.C15.stat_reachable oo rfl ops
example := Klev.C15.finds_ok_reachable oo rfl ops
example := Klev.C15.findByAge_mono wL wL_inv wL_timesInv wL_mono wL_fab 30 [0, 1, 2, 4] (by decide)
example := Klev.C15.findByAge_mono_run oo xs xs_same rfl xs_mono 30 l0 open_l0 [0, 1, 2, 4] (by decide)
example := Klev.C15.findByAge_mono_total wL wL_inv wL_timesInv wL_mono wL_fab 30 (Or.inl (by decide))

-- evaluated: the selections …
example : (findByOffset wL 5).2 = .ok [0, 1, 2, 4] ∧ (findByOffset wL offsetNewest).2 = .ok [0, 1, 2, 4, 5, 6, 8] ∧
    (findByOffset wL offsetOldest).2 = .ok [] ∧ (findByOffset wL (-4)).2 = .err .panic := by decide
example : (findByCount wL 3).2 = .ok [0, 1, 2, 4] ∧ (findByCount wL 7).2 = .ok [] ∧
    (findByCount wL (-1)).2 = .ok [0, 1, 2, 4, 5, 6, 8] := by decide
-- Stat size 553; Size(m) = 70 (69 for the value-less one): 553 → 483 → 413 → 343 < 400
example : (findBySize wL 400).2 = .ok [0, 1, 2] ∧ (findBySize wL 554).2 = .ok [] ∧
    (findBySize wL 0).2 = .ok [0, 1, 2, 4, 5, 6, 8] := by decide
-- the bound of `FindByAge 30` is the first message at time 30 (offset 4); the scan ends with the
-- chunk that holds it, so offset 4 (time 30) is selected and offset 5 (also time 30, next segment)
-- is not: nothing newer than 30 is selected, everything older is
example : (findByAge wL 30).2 = .ok [0, 1, 2, 4] ∧ (findByAge wL 20).2 = .ok [0, 1] ∧
    (findByAge wL 31).2 = .ok [0, 1, 2, 4, 5] ∧ (findByAge wL 100).2 = .ok [0, 1, 2, 4, 5, 6, 8] ∧
    (findByAge wL 5).2 = .ok [] := by decide
-- … and the trims
example : (thenDelete true (findBySize wL 400)).2.err = none ∧
    (thenDelete true (findBySize wL 400)).2.msgs.map (·.off) = [0, 1, 2] ∧
    (abs (thenDelete true (findBySize wL 400)).1).live.map (·.off) = [4, 5, 6, 8] ∧
    ((thenDelete true (findBySize wL 400)).1.stat).2 = .ok ⟨3, 4, 327⟩ := by decide
-- single mode: one `Delete`, one segment
example : (thenDelete false (findByOffset wL 5)).2.msgs.map (·.off) = [0, 1] ∧
    (abs (thenDelete false (findByOffset wL 5)).1).live.map (·.off) = [2, 4, 5, 6, 8] := by decide
example : (thenDelete true (findByCount wL 3)).2.msgs.map (·.off) = [0, 1, 2, 4] ∧
    (abs (thenDelete true (findByCount wL 3)).1).live.map (·.off) = [5, 6, 8] := by decide
example : (thenDelete true (findByCount wRO 3)).2.err = some .readonly ∧
    (abs (thenDelete true (findByCount wRO 3)).1).live = (abs wL).live := by decide

end NonVacuity

#print axioms Klev.C15.scan_visits_all
#print axioms Klev.C15.findByOffset_ok
#print axioms Klev.C15.findByAge_prefix
#print axioms Klev.C15.findByOffset_eq
#print axioms Klev.C15.findByOffset_panic
#print axioms Klev.C15.findByCount_ok
#print axioms Klev.C15.findByCount_eq
#print axioms Klev.C15.findBySize_ok
#print axioms Klev.C15.findBySize_eq
#print axioms Klev.C15.sizePrefix_prefix
#print axioms Klev.C15.sizePrefix_reaches
#print axioms Klev.C15.sizePrefix_minimal
#print axioms Klev.C15.findByAge_res
#print axioms Klev.C15.findByAge_ok_of_ok
#print axioms Klev.C15.findByAge_empty_times
#print axioms Klev.C15.consumeOK_allows_lost_cursor
#print axioms Klev.C15.trimByOffsetMulti_bound
#print axioms Klev.C15.trimByOffsetMulti_newest
#print axioms Klev.C15.trimByCountMulti_bound
#print axioms Klev.C15.trimBySizeMulti_bound
#print axioms Klev.C15.thenDelete_any
#print axioms Klev.C15.trimByOffset_any
#print axioms Klev.C15.trimByCount_any
#print axioms Klev.C15.trimBySize_any
#print axioms Klev.C15.trimByAge_any
#print axioms Klev.C15.stat_reachable
#print axioms Klev.C15.finds_ok_reachable
#print axioms Klev.C15.findByAge_mono
#print axioms Klev.C15.findByAge_mono_run
#print axioms Klev.C15.findByAge_mono_total
