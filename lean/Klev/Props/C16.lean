/-
C16 — Compaction never changes the latest value of any key.
-/
import Klev.Proofs.HelpersOK
import Klev.Proofs.CompactPure
import Klev.Proofs.CompactOK
import Klev.Proofs.Reach
import Klev.Proofs.Witness
namespace Klev.C16

/-- `FindUpdates` selects exactly the scanned messages (not newer than the cut-off, up to
the first newer one) that have a later scanned message with the same key (byte equality,
nil ≡ empty). -/
theorem findUpdates_ok (l : Log) (h : Inv l) (t : Int) :
    Spec.FindUpdatesOK (abs l) t (Helpers.findUpdates l t).2 ∧
    Inv (Helpers.findUpdates l t).1 ∧ abs (Helpers.findUpdates l t).1 = abs l :=
  Klev.findUpdates_ok l h t

/-- `FindDeletes` selects exactly the value-less scanned messages that are the first scanned
message of their key. -/
theorem findDeletes_ok (l : Log) (h : Inv l) (t : Int) :
    Spec.FindDeletesOK (abs l) t (Helpers.findDeletes l t).2 ∧
    Inv (Helpers.findDeletes l t).1 ∧ abs (Helpers.findDeletes l t).1 = abs l :=
  Klev.findDeletes_ok l h t

open Helpers

/-! ### The pure (L0) facts: removing any subset of a selection keeps every key's latest value -/

/-- What it means to be selected by `FindUpdates`: the message is scanned and has a later
scanned message with the same key (byte equality). -/
theorem mem_hasLaterSameKey {L : List Msg} (hp : L.Pairwise (fun a b => a.off < b.off)) {d : Msg}
    (hd : d ∈ Spec.hasLaterSameKey L) : d ∈ L ∧ ∃ m ∈ L, m.key = d.key ∧ d.off < m.off :=
  Spec.mem_hasLaterSameKey hp hd

/-- What it means to be selected by `FindDeletes`: the message is scanned, has no value, and
is the oldest scanned message of its key. -/
theorem mem_firstOfKeyNoValue {L : List Msg} (hp : L.Pairwise (fun a b => a.off < b.off)) {d : Msg}
    (hd : d ∈ Spec.firstOfKeyNoValue L []) :
    d ∈ L ∧ d.val = [] ∧ ∀ m ∈ L, m.key = d.key → d.off ≤ m.off :=
  Spec.mem_firstOfKeyNoValue hp hd

/-- Removing messages each of which has a *later* live message with the same key never
changes the latest value of any key. -/
theorem latest_removeAll_of_later (s s' : Spec) (hwf : Spec.WF s) (del : List Msg)
    (hlive : s'.live = Spec.removeAll s.live del)
    (hdel : ∀ d ∈ del, ∃ m ∈ s.live, m.key = d.key ∧ d.off < m.off) :
    ∀ k, Spec.latest s' k = Spec.latest s k :=
  Spec.latest_removeAll_of_later s s' hwf del hlive hdel

/-- Removing value-less messages each of which is the *oldest* live message of its key never
changes the latest value of any key (if such a message is also the last of its key, the key
was absent before — value-less means absent — and has no message afterwards: absent again). -/
theorem latest_removeAll_of_first_novalue (s s' : Spec) (hwf : Spec.WF s) (del : List Msg)
    (hlive : s'.live = Spec.removeAll s.live del)
    (hdel : ∀ d ∈ del, d ∈ s.live ∧ d.val = [] ∧ ∀ m ∈ s.live, m.key = d.key → d.off ≤ m.off) :
    ∀ k, Spec.latest s' k = Spec.latest s k :=
  Spec.latest_removeAll_of_first_novalue s s' hwf del hlive hdel

/-- **CompactUpdates, pure form**: removing *any* subset of the `FindUpdates` selection (one
segment's worth, all of it, or what a failed pass left) keeps the latest value of every key,
and every removed message is not newer than the cut-off and has a later live message with
the same key. Any cut-off time. -/
theorem compactUpdates_latest (s s' : Spec) (hwf : Spec.WF s) (t : Int) (del : List Msg)
    (hsel : ∀ d ∈ del, d ∈ s.live ∧ d.off ∈ Spec.offsOf (Spec.hasLaterSameKey (Spec.scanned s t)))
    (hlive : s'.live = Spec.removeAll s.live del) :
    Spec.CompactLatestOK s s' ∧ (∀ k, Spec.latest s' k = Spec.latest s k) ∧
      Spec.CompactUpdatesRemovedOK s t del :=
  Spec.compactUpdates_latest s s' hwf t del hsel hlive

/-- **CompactDeletes, pure form**: removing *any* subset of the `FindDeletes` selection keeps
the latest value of every key, and every removed message is value-less, not newer than the
cut-off, and the oldest live message of its key. -/
theorem compactDeletes_latest (s s' : Spec) (hwf : Spec.WF s) (t : Int) (del : List Msg)
    (hsel : ∀ d ∈ del, d ∈ s.live ∧
      d.off ∈ Spec.offsOf (Spec.firstOfKeyNoValue (Spec.scanned s t) []))
    (hlive : s'.live = Spec.removeAll s.live del) :
    Spec.CompactLatestOK s s' ∧ (∀ k, Spec.latest s' k = Spec.latest s k) ∧
      Spec.CompactDeletesRemovedOK s t del :=
  Spec.compactDeletes_latest s s' hwf t del hsel hlive

/-- **At most one message per key, pure form**: once the whole `FindUpdates` selection is
gone, on a log whose times never decrease with offset there is at most one message per key
among those not newer than the cut-off. -/
theorem compactUpdatesMulti_one_per_key (s s' : Spec) (hwf : Spec.WF s) (hmono : Spec.Monotone s)
    (t : Int) (del : List Msg) (hlive : s'.live = Spec.removeAll s.live del)
    (hfull : ∀ m ∈ s'.live, m.off ∉ Spec.offsOf (Spec.hasLaterSameKey (Spec.scanned s t))) :
    Spec.AtMostOnePerKey s' t :=
  Spec.compactUpdatesMulti_one_per_key s s' hwf hmono t del hlive hfull

/-! ### The model: `CompactUpdates[Multi]` / `CompactDeletes[Multi]` = find, then Delete / DeleteMulti -/

/-- Closed form of `FindUpdates` (the map-based loop of compact_updates.go run over the
scanned messages); it only loads indexes. -/
theorem findUpdates_eq (l : Log) (h : Inv l) (t : Int) :
    ∃ l', Loaded l l' ∧ findUpdates l t =
      (l', .ok ((Spec.scanned (abs l) t).foldl updStep ([], [])).2) :=
  Klev.findUpdates_eq l h t

/-- Closed form of `FindDeletes`, with equality (same order, not only the same set). -/
theorem findDeletes_eq (l : Log) (h : Inv l) (t : Int) :
    ∃ l', Loaded l l' ∧ findDeletes l t =
      (l', .ok (Spec.offsOf (Spec.firstOfKeyNoValue (Spec.scanned (abs l) t) []))) :=
  Klev.findDeletes_eq l h t

/-- **Clause "the latest value of every key is the same before and after CompactUpdates", and
"CompactUpdates removes only messages not newer than the cut-off that have a later message
with the same key".** For every log satisfying the invariant, every cut-off time, both modes
(`CompactUpdates`: one `Delete`; `CompactUpdatesMulti`), any handle, whether or not a pass
fails: the invariant is kept, exactly the reported messages are removed, `NextOffset` is
kept, the latest value of *every* key is unchanged, and every removed message is as
promised. -/
theorem compactUpdates_model (l : Log) (h : Inv l) (t : Int) (multi : Bool) :
    let r := thenDelete multi (findUpdates l t)
    Inv r.1 ∧ (abs r.1).live = Spec.removeAll (abs l).live r.2.msgs ∧ (abs r.1).next = (abs l).next ∧
    Spec.CompactLatestOK (abs l) (abs r.1) ∧ (∀ k, Spec.latest (abs r.1) k = Spec.latest (abs l) k) ∧
    Spec.CompactUpdatesRemovedOK (abs l) t r.2.msgs :=
  Klev.compactUpdates_model l h t multi

/-- **Clause "… before and after CompactDeletes", and "CompactDeletes removes only value-less
messages not newer than the cut-off that are the oldest live message of their key".** Same
generality as `compactUpdates_model`. -/
theorem compactDeletes_model (l : Log) (h : Inv l) (t : Int) (multi : Bool) :
    let r := thenDelete multi (findDeletes l t)
    Inv r.1 ∧ (abs r.1).live = Spec.removeAll (abs l).live r.2.msgs ∧ (abs r.1).next = (abs l).next ∧
    Spec.CompactLatestOK (abs l) (abs r.1) ∧ (∀ k, Spec.latest (abs r.1) k = Spec.latest (abs l) k) ∧
    Spec.CompactDeletesRemovedOK (abs l) t r.2.msgs :=
  Klev.compactDeletes_model l h t multi

/-- `thenDelete true` (the `…Multi` form) after a `Find*` that only loaded indexes and
selected live offsets, on a read-write log: no error, and exactly the selected messages are
gone. -/
theorem thenDelete_multi_complete (l l1 : Log) (hld : Loaded l l1) (hro : l.opts.readonly = false)
    (offs : List Int) (hlive : ∀ o ∈ offs, ∃ m ∈ (abs l).live, m.off = o) :
    let r := thenDelete true (l1, .ok offs)
    Inv r.1 ∧ r.2.err = none ∧
    (abs r.1).live = (abs l).live.filter (fun m => !offs.contains m.off) ∧
    (abs r.1).next = (abs l).next ∧
    (∀ d, d ∈ r.2.msgs ↔ d ∈ (abs l).live ∧ d.off ∈ offs) ∧
    r.2.msgs = (abs l).live.filter (fun m => offs.contains m.off) :=
  Klev.thenDelete_multi_complete l l1 hld hro offs hlive

/-- **Clause "when message times never decrease with offset, CompactUpdates leaves at most
one message per key among those not newer than the cut-off".** `CompactUpdatesMulti` on a
read-write log with non-decreasing times: it does not fail, it removes exactly the
`FindUpdates` selection, and afterwards there is at most one message per key among those not
newer than `t`. -/
theorem compactUpdatesMulti_model (l : Log) (h : Inv l) (hro : l.opts.readonly = false) (t : Int)
    (hmono : Spec.Monotone (abs l)) :
    let r := thenDelete true (findUpdates l t)
    r.2.err = none ∧ Spec.AtMostOnePerKey (abs r.1) t ∧
    (∀ d, d ∈ r.2.msgs ↔ d ∈ Spec.hasLaterSameKey (Spec.scanned (abs l) t)) :=
  Klev.compactUpdatesMulti_model l h hro t hmono

/-- `CompactDeletesMulti` on a read-write log: it does not fail and removes exactly the
`FindDeletes` selection — every value-less message not newer than `t` (in scan order) that
is the oldest of its key. -/
theorem compactDeletesMulti_model (l : Log) (h : Inv l) (hro : l.opts.readonly = false) (t : Int) :
    let r := thenDelete true (findDeletes l t)
    r.2.err = none ∧
    (∀ d, d ∈ r.2.msgs ↔ d ∈ Spec.firstOfKeyNoValue (Spec.scanned (abs l) t) []) :=
  Klev.compactDeletesMulti_model l h hro t

/-! ### `Compact`, and repeated / alternating application -/

/-- **Clause "… and Compact".** `CompactUpdates` followed by `CompactDeletes` (each in either
mode, each with its own cut-off): the invariant holds afterwards and the latest value of
every key is what it was before both. Since the conclusion re-establishes the hypothesis
(`Inv`), this iterates: any repeated or alternating application of the two compactions keeps
every key's latest value. -/
theorem compact_latest (l : Log) (h : Inv l) (t1 t2 : Int) (m1 m2 : Bool) :
    let r1 := thenDelete m1 (findUpdates l t1)
    let r2 := thenDelete m2 (findDeletes r1.1 t2)
    Inv r2.1 ∧ (abs r2.1).next = (abs l).next ∧
      ∀ k, Spec.latest (abs r2.1) k = Spec.latest (abs l) k := by
  intro r1 r2
  obtain ⟨hi1, _, hn1, _, hl1, _⟩ := Klev.compactUpdates_model l h t1 m1
  obtain ⟨hi2, _, hn2, _, hl2, _⟩ := Klev.compactDeletes_model r1.1 hi1 t2 m2
  exact ⟨hi2, hn2.trans hn1, fun k => (hl2 k).trans (hl1 k)⟩

/-- The other order: `CompactDeletes`, then `CompactUpdates`. -/
theorem compact_latest' (l : Log) (h : Inv l) (t1 t2 : Int) (m1 m2 : Bool) :
    let r1 := thenDelete m1 (findDeletes l t1)
    let r2 := thenDelete m2 (findUpdates r1.1 t2)
    Inv r2.1 ∧ (abs r2.1).next = (abs l).next ∧
      ∀ k, Spec.latest (abs r2.1) k = Spec.latest (abs l) k := by
  intro r1 r2
  obtain ⟨hi1, _, hn1, _, hl1, _⟩ := Klev.compactDeletes_model l h t1 m1
  obtain ⟨hi2, _, hn2, _, hl2, _⟩ := Klev.compactUpdates_model r1.1 hi1 t2 m2
  exact ⟨hi2, hn2.trans hn1, fun k => (hl2 k).trans (hl1 k)⟩

/-- **The quantifier "for all reachable states".** After any history from an empty directory
opened with any options, with no hypothesis on the reached state, for every cut-off and both
modes: both compactions keep the invariant and the latest value of every key, and remove
only what they promise. -/
theorem compaction_reachable (oo : OpenOpts) (ops : List Op) (t : Int) (multi : Bool) :
    ∃ l0, Log.open [] oo = .ok l0 ∧
      (let r := thenDelete multi (findUpdates (runOps l0 ops) t)
       Inv r.1 ∧ (∀ k, Spec.latest (abs r.1) k = Spec.latest (abs (runOps l0 ops)) k) ∧
         Spec.CompactUpdatesRemovedOK (abs (runOps l0 ops)) t r.2.msgs) ∧
      (let r := thenDelete multi (findDeletes (runOps l0 ops) t)
       Inv r.1 ∧ (∀ k, Spec.latest (abs r.1) k = Spec.latest (abs (runOps l0 ops)) k) ∧
         Spec.CompactDeletesRemovedOK (abs (runOps l0 ops)) t r.2.msgs) := by
  obtain ⟨l0, ho, hinv, _⟩ := Klev.reach_from_empty oo ops
  obtain ⟨a1, _, _, _, a5, a6⟩ := Klev.compactUpdates_model (runOps l0 ops) hinv t multi
  obtain ⟨b1, _, _, _, b5, b6⟩ := Klev.compactDeletes_model (runOps l0 ops) hinv t multi
  exact ⟨l0, ho, ⟨a1, a5, a6⟩, ⟨b1, b5, b6⟩⟩

end Klev.C16

/-! ### Non-vacuity

The theorems at the witness log `Witness.wL` (`Klev/Proofs/Witness.lean`): live messages
`0 k1`, `1 k2`, `2 k1`, `4 k6 (no value)`, `5 k4`, `6 k1`, `8 k2` with times 10 20 20 30 30 40 50 —
key `[1]` three times, key `[2]` twice, a value-less message that is the only one of its key;
read-write; times non-decreasing. `FindUpdates` selects 0, 1, 2; `FindDeletes` selects 4. -/
section NonVacuity
open Klev Klev.Witness Klev.Helpers

example := Klev.C16.findUpdates_ok wL wL_inv 100
example := Klev.C16.findUpdates_ok wL wL_inv 30
example := Klev.C16.findDeletes_ok wL wL_inv 100
example := Klev.C16.mem_hasLaterSameKey (L := (abs wL).live) wL_wf.1 (d := ⟨0, 10, [1], [1]⟩) (by decide)
example := Klev.C16.mem_firstOfKeyNoValue (L := (abs wL).live) wL_wf.1 (d := ⟨4, 30, [6], []⟩) (by decide)
example := Klev.C16.latest_removeAll_of_later (abs wL)
  ⟨Spec.removeAll (abs wL).live [⟨0, 10, [1], [1]⟩, ⟨2, 20, [1], [3]⟩], 9⟩ wL_wf
  [⟨0, 10, [1], [1]⟩, ⟨2, 20, [1], [3]⟩] rfl (by decide)
example := Klev.C16.latest_removeAll_of_first_novalue (abs wL)
  ⟨Spec.removeAll (abs wL).live [⟨4, 30, [6], []⟩], 9⟩ wL_wf [⟨4, 30, [6], []⟩] rfl (by decide)
-- a strict subset of the selection (what a single-mode pass or a failed pass leaves)
example := Klev.C16.compactUpdates_latest (abs wL)
  ⟨Spec.removeAll (abs wL).live [⟨0, 10, [1], [1]⟩, ⟨1, 20, [2], [2]⟩], 9⟩ wL_wf 100
  [⟨0, 10, [1], [1]⟩, ⟨1, 20, [2], [2]⟩] (by decide) rfl
example := Klev.C16.compactDeletes_latest (abs wL)
  ⟨Spec.removeAll (abs wL).live [⟨4, 30, [6], []⟩], 9⟩ wL_wf 100 [⟨4, 30, [6], []⟩] (by decide) rfl
example := Klev.C16.compactUpdatesMulti_one_per_key (abs wL)
  ⟨Spec.removeAll (abs wL).live [⟨0, 10, [1], [1]⟩, ⟨1, 20, [2], [2]⟩, ⟨2, 20, [1], [3]⟩], 9⟩ wL_wf wL_mono 100
  [⟨0, 10, [1], [1]⟩, ⟨1, 20, [2], [2]⟩, ⟨2, 20, [1], [3]⟩] rfl (by decide)
example := Klev.C16.findUpdates_eq wL wL_inv 100
example := Klev.C16.findDeletes_eq wL wL_inv 100
example := Klev.C16.compactUpdates_model wL wL_inv 100 true
example := Klev.C16.compactUpdates_model wL wL_inv 100 false
example := Klev.C16.compactUpdates_model wRO wRO_inv 100 true
example := Klev.C16.compactDeletes_model wL wL_inv 100 false
example := Klev.C16.thenDelete_multi_complete wL (wL.get 0).1 (Klev.get_loaded wL wL_inv 0) wL_rw [0, 2, 1]
  (by decide)
example := Klev.C16.compactUpdatesMulti_model wL wL_inv wL_rw 100 wL_mono
example := Klev.C16.compactDeletesMulti_model wL wL_inv wL_rw 100
example := Klev.C16.compact_latest wL wL_inv 100 100 true true
example := Klev.C16.compact_latest' wL wL_inv 30 100 false true
example := Klev.C16.compaction_reachable oo ops 100 true

-- evaluated
example : (findUpdates wL 100).2 = .ok [0, 2, 1] ∧ (findUpdates wL 30).2 = .ok [0] ∧
    (findDeletes wL 100).2 = .ok [4] ∧ (findDeletes wL 20).2 = .ok [] := by decide
example : ([[1], [2], [3], [4], [6]] : List (List UInt8)).map (Spec.latest (abs wL)) =
    [some [6], some [8], none, some [5], none] := by decide
-- CompactUpdatesMulti removes 0 1 2 (one message per key is left), CompactUpdates only what the
-- first `Delete` serves (segment 0); the latest values are the same
example : (thenDelete true (findUpdates wL 100)).2.msgs.map (·.off) = [0, 1, 2] ∧
    (abs (thenDelete true (findUpdates wL 100)).1).live.map (fun m => (m.off, m.key)) =
      [(4, [6]), (5, [4]), (6, [1]), (8, [2])] ∧
    (thenDelete false (findUpdates wL 100)).2.msgs.map (·.off) = [0, 1] ∧
    ([[1], [2], [3], [4], [6]] : List (List UInt8)).map (Spec.latest (abs (thenDelete true (findUpdates wL 100)).1)) =
      [some [6], some [8], none, some [5], none] := by decide
-- Compact = CompactUpdates then CompactDeletes: offsets 0 1 2 and then 4 go
example : (abs (thenDelete true (findDeletes (thenDelete true (findUpdates wL 100)).1 100)).1).live.map (·.off) =
    [5, 6, 8] ∧
    ([[1], [2], [3], [4], [6]] : List (List UInt8)).map
      (Spec.latest (abs (thenDelete true (findDeletes (thenDelete true (findUpdates wL 100)).1 100)).1)) =
      [some [6], some [8], none, some [5], none] := by decide

end NonVacuity

#print axioms Klev.C16.findUpdates_ok
#print axioms Klev.C16.findDeletes_ok
#print axioms Klev.C16.mem_hasLaterSameKey
#print axioms Klev.C16.mem_firstOfKeyNoValue
#print axioms Klev.C16.latest_removeAll_of_later
#print axioms Klev.C16.latest_removeAll_of_first_novalue
#print axioms Klev.C16.compactUpdates_latest
#print axioms Klev.C16.compactDeletes_latest
#print axioms Klev.C16.compactUpdatesMulti_one_per_key
#print axioms Klev.C16.findUpdates_eq
#print axioms Klev.C16.findDeletes_eq
#print axioms Klev.C16.compactUpdates_model
#print axioms Klev.C16.compactDeletes_model
#print axioms Klev.C16.thenDelete_multi_complete
#print axioms Klev.C16.compactUpdatesMulti_model
#print axioms Klev.C16.compactDeletesMulti_model
#print axioms Klev.C16.compact_latest
#print axioms Klev.C16.compact_latest'
#print axioms Klev.C16.compaction_reachable
