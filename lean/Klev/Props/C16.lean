/-
C16 — Compaction never changes the latest value of any key.
-/
import Klev.Proofs.HelpersOK
namespace Klev.C16

/-- `FindUpdates` selects exactly the scanned messages (not newer than the cut-off, up to
the first newer one) that have a later scanned message with the same key (byte equality,
nil ≡ empty). -/
theorem findUpdates_ok (l : Log) (h : Inv l) (t : Int) :
    Spec.FindUpdatesOK (abs l) t (Helpers.findUpdates l t).2 ∧
    Inv (Helpers.findUpdates l t).1 ∧ abs (Helpers.findUpdates l t).1 = abs l :=
  Klev.findUpdates_ok l h t

/-- `FindDeletes` selects exactly the value-less scanned messages that are the first scanned
message of their key. -/
theorem findDeletes_ok (l : Log) (h : Inv l) (t : Int) :
    Spec.FindDeletesOK (abs l) t (Helpers.findDeletes l t).2 ∧
    Inv (Helpers.findDeletes l t).1 ∧ abs (Helpers.findDeletes l t).1 = abs l :=
  Klev.findDeletes_ok l h t

end Klev.C16

#print axioms Klev.C16.findUpdates_ok
#print axioms Klev.C16.findDeletes_ok
