/-
C17 — Format migration and mixed-version logs preserve every message.

The abstraction `abs` ignores versions, so "a mixed-version log behaves like a
single-version one" is the refinement itself: every read theorem (C03, C04, C09, C10) is
stated over `abs` and holds whatever the versions of the segments are.
-/
import Klev.Proofs.Reach
import Klev.Proofs.CrashProofs
import Klev.Proofs.Witness
namespace Klev.C17

/-- Package-level Migrate to either version while closed, and reopening with any version
options (NewSegmentsVersion, KeepRewriteVersion, EagerVersionMigrate): the invariant
holds and neither the live sequence nor NextOffset changes. -/
theorem migrate_keeps_content (l : Log) (hinv : Inv l) (rm : List Int) (v : Ver) (rec : Bool) (oo : OpenOpts) :
    Inv (stepOp l (.reopen rm (some v) rec oo)) ∧ abs (stepOp l (.reopen rm (some v) rec oo)) = abs l :=
  Klev.step_inv_abs l hinv (.reopen rm (some v) rec oo)

/-- Delete-by-rewrite, with or without KeepRewriteVersion and whatever NewSegmentsVersion
is: exactly the reported messages go, NextOffset stays (`DeleteOK` does not mention
versions; the theorem holds for all option values). -/
theorem rewrite_keeps_content (l : Log) (hinv : Inv l) (offs : List Int) :
    Inv (l.delete offs).1 ∧
    Spec.DeleteOK l.opts.readonly l.opts.params (abs l) offs (l.delete offs).2 (abs (l.delete offs).1) :=
  Klev.delete_step l hinv offs

/-- After a migration every log file is in the target version. -/
theorem migrate_versions (p : Params) (v : Ver) (d : List SegDisk) :
    ∀ sd ∈ d.map (segMigrate p v v), sd.ver = v := by
  intro sd hsd
  obtain ⟨sd0, _, rfl⟩ := List.mem_map.mp hsd
  unfold segMigrate
  split
  · assumption
  · rfl

/-- Migrating twice is the same as once. -/
theorem migrate_idempotent (p : Params) (v : Ver) (sd : SegDisk) :
    segMigrate p v v (segMigrate p v v sd) = segMigrate p v v sd := by
  unfold segMigrate
  split
  · next h => simp [h]
  · simp

/-- A rewritten segment takes the source version with KeepRewriteVersion and
NewSegmentsVersion otherwise (the version handed to `rewrite` in `Log.delete`). -/
theorem rewrite_version (p : Params) (s : Seg) (offs : List Int) (mv : Ver) :
    (rewrittenSeg p (rewrite p s offs mv mv)).ver = mv := rfl

open Klev.Crash in
/-- **Versions after a Delete**, on the files: every segment file afterwards is a file that was
there before (untouched, version included), or the new empty head (in NewSegmentsVersion, log and
index), or the rewritten segment — survivors of one old segment `x`, in `x`'s own version with
KeepRewriteVersion and in NewSegmentsVersion without, index file in the same version. -/
theorem delete_versions (l : Log) (hrw : l.opts.readonly = false) (offs : List Int) :
    ∀ sd ∈ (l.delete offs).1.disk,
      sd ∈ l.disk ∨
      (sd.recs = [] ∧ sd.ver = l.opts.nsv ∧ sd.idxf = some ⟨l.opts.nsv, []⟩) ∨
      (∃ x ∈ l.disk, sd.recs.Sublist x.recs ∧ sd.ver = (if l.opts.keep then x.ver else l.opts.nsv) ∧
        ∃ f, sd.idxf = some f ∧ f.ver = sd.ver) := by
  intro sd hsd
  rcases delete_disk l hrw offs with ⟨_, hl⟩ | ⟨PRE, x, POST0, rw, nh, hd, _, hres, _, _, hsub, hver, hiver⟩
  · left; rw [hl] at hsd; exact hsd
  · rw [hres] at hsd
    have hx : x ∈ l.disk := by rw [hd]; simp
    rcases List.mem_append.mp hsd with h | h
    · left; rw [hd]; exact List.mem_append_left _ h
    · rcases List.mem_append.mp h with h | h
      · -- the rewritten segment
        right; right
        unfold fin at h
        split at h
        · cases h
        · simp only [List.mem_singleton] at h
          subst h
          exact ⟨x, hx, hsub, hver, ⟨rw.iver, _⟩, rfl, hiver⟩
      · rcases List.mem_append.mp h with h | h
        · left; rw [hd]; exact List.mem_append_right _ (List.mem_cons_of_mem _ h)
        · -- the new head
          split at h
          · simp only [List.mem_singleton] at h
            subst h
            right; left
            exact ⟨rfl, rfl, rfl⟩
          · cases h

/-- **New segments are in NewSegmentsVersion**: the segment a rollover creates (log file and index file). -/
theorem rollover_version (l : Log) (h : Seg) (hl : l.segs.getLast? = some h)
    (hr : needsRollover l.opts h = true) :
    ∃ r, l.rollover.segs.getLast? = some r ∧ r.recs = [] ∧ r.ver = l.opts.nsv ∧
      r.idxf = some ⟨l.opts.nsv, []⟩ := by
  unfold Log.rollover
  rw [hl]
  simp only [hr, if_true]
  refine ⟨(openWriter l.opts (emptySeg l.wNextOff) l.wNextTime).1, ?_, ?_, ?_, ?_⟩
  · simp [List.getLast?_append]
  · simp [openWriter, emptySeg]
  · simp [openWriter, emptySeg]
  · simp [openWriter, emptySeg]

end Klev.C17

/-! ### Non-vacuity: the theorems at the witness log `Witness.wL` (four V2 segments;
`Klev/Proofs/Witness.lean`) -/
section NonVacuity
open Klev Klev.Witness

-- package-level Migrate to V1 while closed (index file of segment 0 removed, Recover run), reopened
-- with the original options; and a reopen with EagerVersionMigrate / NewSegmentsVersion = V1
example := Klev.C17.migrate_keeps_content wL wL_inv [0] .v1 true oo
example := Klev.C17.migrate_keeps_content wL wL_inv [] .v2 false
  ⟨⟨false, ⟨true, true⟩, false, 60, Ver.v1, false⟩, false, false, true⟩
example := Klev.C17.rewrite_keeps_content wL wL_inv [4, 5]
-- Delete-by-rewrite under KeepRewriteVersion with NewSegmentsVersion = V1, on a mixed-version log
example := Klev.C17.rewrite_keeps_content
  (runOps wL [.reopen [] none false ⟨⟨false, ⟨true, true⟩, false, 60, Ver.v1, true⟩, false, false, false⟩,
    .publish [(60, [9], [9]), (61, [], [])], .publish [(62, [1], [0])]])
  (Klev.run_inv_abs wL wL_inv _).1 [4]

-- versions on the files after a Delete (mixed-version witness: keep = true, nsv = V1) and of a rolled-over head
example := Klev.C17.delete_versions wL wL_rw [4, 5]
example : ((wL.delete [4, 5]).1.disk.map (·.ver), wL.disk.map (·.ver)) = ([.v2, .v2, .v2, .v2], [.v2, .v2, .v2, .v2]) := by decide

-- evaluated: all log files in V1 afterwards, same content
example : (stepOp wL (.reopen [0] (some .v1) true oo)).segs.map (·.ver) = [.v1, .v1, .v1, .v1] ∧
    (abs (stepOp wL (.reopen [0] (some .v1) true oo))).live = (abs wL).live ∧
    (abs (stepOp wL (.reopen [0] (some .v1) true oo))).next = 9 := by decide
-- a mixed-version log (NewSegmentsVersion = V1, KeepRewriteVersion): the new segment is V1, the
-- rewritten segment 2 keeps V2; lookups go across versions
example :
    let mixed := runOps wL [.reopen [] none false ⟨⟨false, ⟨true, true⟩, false, 60, Ver.v1, true⟩, false, false, false⟩,
      .publish [(60, [9], [9]), (61, [], [])], .publish [(62, [1], [0])], .delete [4]]
    mixed.segs.map (fun s => (s.base, s.ver, s.recs.map (·.off))) =
      [(0, .v2, [0, 1]), (2, .v2, [2]), (5, .v2, [5, 6]), (8, .v2, [8, 9, 10]), (11, .v1, [11])] ∧
    (mixed.getByKey [1]).2 = .ok ⟨11, 62, [1], [0]⟩ ∧
    (mixed.consume 9 10).2 = .ok (11, [⟨9, 60, [9], [9]⟩, ⟨10, 61, [], []⟩]) := by decide

end NonVacuity

#print axioms Klev.C17.migrate_keeps_content
#print axioms Klev.C17.rewrite_keeps_content
#print axioms Klev.C17.migrate_versions
#print axioms Klev.C17.migrate_idempotent
#print axioms Klev.C17.rewrite_version
#print axioms Klev.C17.delete_versions
#print axioms Klev.C17.rollover_version
