/-
C17 — Format migration and mixed-version logs preserve every message.

The abstraction `abs` ignores versions, so "a mixed-version log behaves like a
single-version one" is the refinement itself: every read theorem (C03, C04, C09, C10) is
stated over `abs` and holds whatever the versions of the segments are.
-/
import Klev.Proofs.Reach
namespace Klev.C17

/-- Package-level Migrate to either version while closed, and reopening with any version
options (NewSegmentsVersion, KeepRewriteVersion, EagerVersionMigrate): the invariant
holds and neither the live sequence nor NextOffset changes. -/
theorem migrate_keeps_content (l : Log) (hinv : Inv l) (rm : List Int) (v : Ver) (rec : Bool) (oo : OpenOpts) :
    Inv (stepOp l (.reopen rm (some v) rec oo)) ∧ abs (stepOp l (.reopen rm (some v) rec oo)) = abs l :=
  Klev.step_inv_abs l hinv (.reopen rm (some v) rec oo)

/-- Delete-by-rewrite, with or without KeepRewriteVersion and whatever NewSegmentsVersion
is: exactly the reported messages go, NextOffset stays (`DeleteOK` does not mention
versions; the theorem holds for all option values). -/
theorem rewrite_keeps_content (l : Log) (hinv : Inv l) (offs : List Int) :
    Inv (l.delete offs).1 ∧
    Spec.DeleteOK l.opts.readonly l.opts.params (abs l) offs (l.delete offs).2 (abs (l.delete offs).1) :=
  Klev.delete_step l hinv offs

/-- After a migration every log file is in the target version. -/
theorem migrate_versions (p : Params) (v : Ver) (d : List SegDisk) :
    ∀ sd ∈ d.map (segMigrate p v v), sd.ver = v := by
  intro sd hsd
  obtain ⟨sd0, _, rfl⟩ := List.mem_map.mp hsd
  unfold segMigrate
  split
  · assumption
  · rfl

/-- Migrating twice is the same as once. -/
theorem migrate_idempotent (p : Params) (v : Ver) (sd : SegDisk) :
    segMigrate p v v (segMigrate p v v sd) = segMigrate p v v sd := by
  unfold segMigrate
  split
  · next h => simp [h]
  · simp

/-- A rewritten segment takes the source version with KeepRewriteVersion and
NewSegmentsVersion otherwise (the version handed to `rewrite` in `Log.delete`). -/
theorem rewrite_version (p : Params) (s : Seg) (offs : List Int) (mv : Ver) :
    (rewrittenSeg p (rewrite p s offs mv mv)).ver = mv := rfl

end Klev.C17

#print axioms Klev.C17.migrate_keeps_content
#print axioms Klev.C17.rewrite_keeps_content
#print axioms Klev.C17.migrate_versions
#print axioms Klev.C17.migrate_idempotent
#print axioms Klev.C17.rewrite_version
