/-
C18 — Blocking consume wakes for every publish and never for nothing.

`ConsumeBlocking` = `notify.Wait` then `Consume`; `Publish` = `Log.Publish` then
`notify.Set(next)`; `Close` = `notify.Close` then `Log.Close` (regenerated structural facts,
below). The notifier is modelled as an interleaving semantics over the instruction lists
that the translator T2 regenerates from pkg/notify/notify.go; the theorems quantify over
every schedule (`List Ev`: any number of waiters, setters, closers, cancellations, any
interleaving of their instructions) — no bound on threads or steps.
-/
import Klev.Proofs.NotifyProofs
import Klev.Gen.Notify
import Klev.Gen.Facts
namespace Klev.C18
open Klev.Notify

/-- The proofs are about the programs of the current source. -/
theorem notify_prog_eq :
    Gen.waitProg = waitProg ∧ Gen.setProg = setProg ∧ Gen.closeProg = closeProg ∧
    Gen.barrierCapOneWithToken = true := by decide

/-- The blocking wrapper composes the notifier with the plain calls as assumed. -/
theorem source_facts :
    Gen.blockingWaitThenRead = true ∧ Gen.blockingPublishThenSet = true ∧
    Gen.blockingCloseNotifierFirst = true ∧ Gen.blockingStartsAtNextOffset = true ∧
    -- the typed wrapper (typed_blocking.go) composes the same way
    Gen.typedBlockingWaitThenRead = true ∧ Gen.typedBlockingPublishThenSet = true ∧
    Gen.typedBlockingCloseNotifierFirst = true ∧ Gen.typedBlockingStartsAtNextOffset = true := by decide

/-- "return immediately when the offset is below NextOffset or relative": the first
instruction returns nil without touching shared state (relative offsets are negative and the
notifier's offset is never negative). -/
theorem immediate (s : St) (t : Th) (off : Int) (hk : t.kind = .wait off) (hpc : t.pc = 0)
    (hd : t.done = false) (h : s.next > off) :
    stepTh s t = some (s, { t with res := some .nil }) :=
  Klev.Notify.immediate s t off hk hpc hd h

/-- "stay blocked as long as no Publish, Close or context end occurs": a parked waiter stays
parked under every event except the `close(b)` instruction of a Set/Close thread holding its
channel, and its own cancellation. -/
theorem stays_parked (c : Cfg) (e : Ev) (i : Nat) (t : Th) (hi : c.ths[i]? = some t)
    (hp : Parked c.st t) (hd : t.done = false)
    (hnotWake : ∀ (j : Nat) (u : Th), e = .step j → c.ths[j]? = some u →
      (u.kind = .close ∨ ∃ n, u.kind = .set n) → (progOf u.kind)[u.pc]? = some .closeB → u.b ≠ t.b)
    (hnotCancel : e ≠ .cancel i) :
    (stepCfg c e).ths[i]? = some t ∧ Parked (stepCfg c e).st t := by
  obtain ⟨off, ch, hk, hpc, hb, hnc, hcd⟩ := hp
  -- the channel stays open
  have hopen : ch ∉ (stepCfg c e).st.closedCh := by
    intro hin
    obtain ⟨j, u, he, hj, hku, hpcu, hbu, _⟩ := woken_only_by_set_close c e ch hin hnc
    exact hnotWake j u he hj hku hpcu (by rw [hbu, hb])
  have hstep : stepTh c.st t = none := by
    rw [parked_step c.st t off ch hk hpc hb hd, if_neg hnc]
    simp [hcd]
  have hths : (stepCfg c e).ths[i]? = some t := by
    cases e with
    | step j =>
      by_cases hji : j = i
      · subst hji
        simp [stepCfg, hi, hstep]
      · cases hj : c.ths[j]? with
        | none => simp [stepCfg, hj, hi]
        | some u =>
          cases hs : stepTh c.st u with
          | none => simp [stepCfg, hj, hs, hi]
          | some p =>
            obtain ⟨s', u'⟩ := p
            simp [stepCfg, hj, hs, List.getElem?_set_ne hji, hi]
    | cancel j =>
      have hji : j ≠ i := fun h => hnotCancel (by rw [h])
      cases hj : c.ths[j]? with
      | none => simp [stepCfg, hj, hi]
      | some u => simp [stepCfg, hj, List.getElem?_set_ne hji, hi]
    | spawn k =>
      have hlt : i < c.ths.length := by
        rcases Nat.lt_or_ge i c.ths.length with h | h
        · exact h
        · rw [List.getElem?_eq_none h] at hi; cases hi
      simp [stepCfg, List.getElem?_append_left hlt, hi]
  exact ⟨hths, off, ch, hk, hpc, hb, hopen, hcd⟩

/-- "every Publish that moves NextOffset past the offset wakes them": in every reachable
configuration, a parked waiter whose offset has been passed — once the setters in flight have
finished — is enabled and its next step returns nil. -/
theorem no_lost_wakeup (n : Int) (evs : List Ev) (i : Nat) (t : Th) (off : Int)
    (hi : (run (init n) evs).ths[i]? = some t) (hk : t.kind = .wait off) (hpc : t.pc = 6)
    (hd : t.done = false)
    (hquiet : ∀ (j : Nat) (u : Th), (run (init n) evs).ths[j]? = some u → u.done = false →
      (∃ o, u.kind = .wait o) ∨ u.pc = 0)
    (hnext : (run (init n) evs).st.next > off) :
    enabled (run (init n) evs) i = true ∧ ∃ ch, t.b = some ch ∧ ch ∈ (run (init n) evs).st.closedCh ∧
      stepTh (run (init n) evs).st t = some ((run (init n) evs).st, { t with res := some .nil }) :=
  Klev.Notify.no_lost_wakeup n evs i t off hi hk hpc hd hquiet hnext

/-- … and a setter in flight always can finish (it is never blocked once it holds the token)
and closes the waiters' channel within three of its own steps. -/
theorem setter_closes (n : Int) (evs : List Ev) (j : Nat) (u : Th) (ch : Nat)
    (hj : (run (init n) evs).ths[j]? = some u) (hm : SetterMid u ch) :
    enabled (run (init n) evs) j = true ∧
      ch ∈ (run (init n) (evs ++ [.step j, .step j, .step j])).st.closedCh :=
  Klev.Notify.setter_closes n evs j u ch hj hm

/-- A waiter past its probe whose offset is already passed is never left behind: its channel
is closed, or a setter that will close it is in flight. -/
theorem parked_not_passed (n : Int) (evs : List Ev) (i : Nat) (t : Th) (off : Int) (ch : Nat)
    (hi : (run (init n) evs).ths[i]? = some t) (hk : t.kind = .wait off)
    (hpc : t.pc = 4 ∨ t.pc = 5 ∨ t.pc = 6) (hd : t.done = false) (hu : t.upd = false) (hb : t.b = some ch) :
    ch ∈ (run (init n) evs).st.closedCh ∨ (run (init n) evs).st.next ≤ off ∨
      ∃ (j : Nat) (t' : Th), (run (init n) evs).ths[j]? = some t' ∧ (∃ m, t'.kind = .set m) ∧ t'.b = some ch ∧
        (t'.pc = 1 ∨ t'.pc = 2 ∨ t'.pc = 3) ∧ t'.done = false :=
  Klev.Notify.parked_not_passed n evs i t off ch hi hk hpc hd hu hb

/-- "a cancelled context yields its error". -/
theorem cancel_returns (s : St) (t : Th) (off : Int) (ch : Nat) (hk : t.kind = .wait off)
    (hpc : t.pc = 6) (hb : t.b = some ch) (hd : t.done = false) (hc : t.ctxDone = true)
    (hnc : ch ∉ s.closedCh) : stepTh s t = some (s, { t with res := some .ctxErr }) :=
  Klev.Notify.cancel_returns s t off ch hk hpc hb hd hc hnc

/-- "a wait at or beyond NextOffset that starts after Close fails". -/
theorem wait_after_close_fails (s : St) (off : Int) (hb : s.barrier = .closed) (hn : ¬ s.next > off) :
    run ⟨s, [{ kind := .wait off }]⟩ [.step 0, .step 0, .step 0]
      = ⟨s, [{ kind := .wait off, pc := 2, res := some .errClosed }]⟩ :=
  Klev.Notify.wait_after_close_fails s off hb hn

/-- No schedule panics (send on / close of a closed channel, double close) … -/
theorem no_panic (n : Int) (evs : List Ev) : (run (init n) evs).st.panicked = false :=
  Klev.Notify.no_panic n evs

/-- … or deadlocks: while some call is unfinished and not legitimately parked, some thread can move. -/
theorem no_deadlock (n : Int) (evs : List Ev) (i : Nat) (t : Th)
    (hi : (run (init n) evs).ths[i]? = some t) (hd : t.done = false)
    (hnp : ¬ Parked (run (init n) evs).st t) : ∃ j, enabled (run (init n) evs) j = true :=
  Klev.Notify.no_deadlock n evs i t hi hd hnp

/-- The notifier's offset never moves backwards. -/
theorem next_monotone (n : Int) (evs evs' : List Ev) :
    (run (init n) evs).st.next ≤ (run (init n) (evs ++ evs')).st.next :=
  Klev.Notify.next_monotone_reach n evs evs'

/-- Non-vacuity: a waiter parks, a Set passes its offset, the waiter is enabled and returns nil. -/
example :
    let c := run (init 5) [.spawn (.wait 5), .step 0, .step 0, .step 0, .step 0, .step 0, .step 0]
    enabled c 0 = false ∧
    let c' := run c [.spawn (.set 10), .step 1, .step 1, .step 1, .step 1, .step 1, .step 1]
    c'.st.next = 10 ∧ enabled c' 0 = true ∧ ((run c' [.step 0]).ths[0]?.map (·.res)) = some (some .nil) := by
  decide

end Klev.C18

/-! ### Non-vacuity

The theorems at the concrete run of `Klev/Proofs/NotifyProofs.lean`: `Wait(5)` on a notifier at 0
parks on channel 0 (`demoPark`), then `Set(10)` runs (`demoSet`). -/
section NonVacuity
open Klev.Notify

example := Klev.C18.immediate (initSt 10) { kind := .wait 5 } 5 rfl rfl rfl (by decide)
-- the parked waiter stays parked when a setter is spawned and when that setter takes its first
-- step (`recvBarrier`, not `close(b)`)
example := Klev.C18.stays_parked (run (init 0) demoPark) (.spawn (.set 10)) 0
  { kind := .wait 5, pc := 6, b := some 0, ok := true } (by decide)
  ⟨5, 0, rfl, rfl, rfl, by decide, rfl⟩ rfl (fun _ _ he => nomatch he) (by decide)
example := Klev.C18.stays_parked (run (init 0) (demoPark ++ [.spawn (.set 10)])) (.step 1) 0
  { kind := .wait 5, pc := 6, b := some 0, ok := true } (by decide)
  ⟨5, 0, rfl, rfl, rfl, by decide, rfl⟩ rfl
  (by
    intro j u he hj _ hpc
    cases he
    have h1 : (run (init 0) (demoPark ++ [.spawn (.set 10)])).ths[1]? = some { kind := .set 10 } := by decide
    rw [h1] at hj
    cases hj
    exact absurd hpc (by decide))
  (by decide)
-- after the Set has finished the waiter (offset 5 < 10) is enabled and returns nil
example := Klev.C18.no_lost_wakeup 0 (demoPark ++ demoSet) 0
  { kind := .wait 5, pc := 6, b := some 0, ok := true } 5 (by decide) rfl rfl rfl
  (by
    have hths : (run (init 0) (demoPark ++ demoSet)).ths =
        [{ kind := .wait 5, pc := 6, b := some 0, ok := true },
         { kind := .set 10, pc := 5, b := some 0, ok := true, res := some .none_ }] := by decide
    intro j u hj hd
    rw [hths] at hj
    match j, hj with
    | 0, hj => cases hj; exact Or.inl ⟨5, rfl⟩
    | 1, hj => cases hj; exact absurd hd (by decide)
    | j + 2, hj => exact absurd hj (by simp))
  (by decide)
-- the setter holding channel 0 (after its `recvBarrier`) closes it within three steps
example := Klev.C18.setter_closes 0 (demoPark ++ [.spawn (.set 10), .step 1]) 1
  { kind := .set 10, pc := 1, b := some 0, ok := true } 0 (by decide)
  ⟨⟨10, rfl⟩, rfl, by decide, by decide, rfl⟩
example := Klev.C18.parked_not_passed 0 demoPark 0 { kind := .wait 5, pc := 6, b := some 0, ok := true } 5 0
  (by decide) rfl (Or.inr (Or.inr rfl)) rfl rfl rfl
example := Klev.C18.cancel_returns (initSt 0) { kind := .wait 5, pc := 6, b := some 0, ok := true, ctxDone := true }
  5 0 rfl rfl rfl rfl rfl (by decide)
example := Klev.C18.wait_after_close_fails { next := 0, barrier := .closed, closedCh := [0], fresh := 1 } 5 rfl
  (by decide)
-- the freshly spawned setter is unfinished and not parked: some thread can move
example := Klev.C18.no_deadlock 0 (demoPark ++ [.spawn (.set 10)]) 1 { kind := .set 10 } (by decide) rfl
  (fun ⟨_, _, hk, _⟩ => nomatch hk)

end NonVacuity

#print axioms Klev.C18.notify_prog_eq
#print axioms Klev.C18.source_facts
#print axioms Klev.C18.immediate
#print axioms Klev.C18.stays_parked
#print axioms Klev.C18.no_lost_wakeup
#print axioms Klev.C18.setter_closes
#print axioms Klev.C18.parked_not_passed
#print axioms Klev.C18.cancel_returns
#print axioms Klev.C18.wait_after_close_fails
#print axioms Klev.C18.no_panic
#print axioms Klev.C18.no_deadlock
#print axioms Klev.C18.next_monotone
