/-
C19 — One writer at a time; read-only handles never modify data.
-/
import Klev.Proofs.FlockProofs
import Klev.Proofs.Reach
import Klev.Gen.Facts
namespace Klev.C19

/-- Structural facts of the current source (regenerated on every run by go/ast): `Open`
registers a deferred release of the lock for every error exit, `Close` releases it, and
`Publish` / `Delete` test `Readonly` first. A source change that falsifies one of them
breaks this obligation. -/
theorem source_facts :
    Gen.openReleasesLockOnError = true ∧ Gen.closeReleasesLock = true ∧ Gen.readonlyGuards = true := by
  decide

/-- Over every sequence of opens (succeeding, refused, or failing after the lock was taken)
and closes: never more than one read-write handle, and a read-write handle coexists with no
read-only one. -/
theorem exclusion (ops : List LockOp) : LockInv (lockRun true ⟨0, 0⟩ ops) :=
  Klev.lockRun_inv ⟨0, 0⟩ ops ⟨by simp, by simp⟩

/-- While a read-write handle is open every other Open (either mode) fails and changes nothing. -/
theorem open_fails_while_writer (s : LockSt) (h : s.writers = 1) (lf : Bool) :
    (lockStep true s (.openRW lf)).2 = .locked ∧ (lockStep true s (.openRO lf)).2 = .locked ∧
    (lockStep true s (.openRW lf)).1 = s ∧ (lockStep true s (.openRO lf)).1 = s :=
  Klev.open_fails_while_writer s h lf

/-- While only read-only handles are open, read-only opens succeed and read-write opens fail. -/
theorem readers_admit_readers (s : LockSt) (hw : s.writers = 0) (hr : 0 < s.readers) :
    (lockStep true s (.openRW false)).2 = .locked ∧ (lockStep true s (.openRO false)).2 = .ok :=
  Klev.readers_admit_readers s hw hr

/-- The lock is released by a failed Open … -/
theorem failed_open_releases (s : LockSt) :
    (lockStep Gen.openReleasesLockOnError s (.openRW true)).1 = s ∧
    (lockStep Gen.openReleasesLockOnError s (.openRO true)).1 = s := by
  have : Gen.openReleasesLockOnError = true := by decide
  rw [this]
  exact Klev.failed_open_releases s

/-- … and by Close. -/
theorem close_releases (s : LockSt) (hi : LockInv s) (h : s.writers = 1) :
    (lockStep true (lockStep true s .closeRW).1 (.openRW false)).2 = .ok :=
  Klev.close_releases s hi h

/-- A read-only handle rejects Publish and Delete with `ErrReadonly` and changes nothing. -/
theorem readonly_rejects (l : Log) (hro : l.opts.readonly = true) (batch : List (Int × List UInt8 × List UInt8))
    (offs : List Int) :
    l.publish batch = (l, .err .readonly) ∧ l.delete offs = (l, .err .readonly) := by
  unfold Log.publish Log.delete
  simp [hro]

/-- A read-only handle answers like a read-write one on the same files: opening the same
clean directory in either mode gives logs with the same content (and the read theorems
are functions of the content). -/
theorem readonly_same_content (d : List SegDisk) (hd : DiskOK d) (oo1 oo2 : OpenOpts) (l1 l2 : Log)
    (h1 : Log.open d oo1 = .ok l1) (h2 : Log.open d oo2 = .ok l2) :
    Inv l1 ∧ Inv l2 ∧ abs l1 = abs l2 := by
  obtain ⟨a1, a2, _⟩ := open_spec d hd oo1 l1 h1
  obtain ⟨b1, b2, _⟩ := open_spec d hd oo2 l2 h2
  exact ⟨a1, b1, a2.trans b2.symm⟩

/-- Reads through any handle never change the records of any segment (only indexes are
loaded or rebuilt): the log files are untouched. -/
theorem reads_keep_log_files (l : Log) (hinv : Inv l) (off : Int) (mc : Nat) :
    shape (l.consume off mc).1.segs = shape l.segs ∧ shape (l.get off).1.segs = shape l.segs :=
  ⟨(consume_loaded l hinv off mc).shape, (get_loaded l hinv off).shape⟩

end Klev.C19

#print axioms Klev.C19.source_facts
#print axioms Klev.C19.exclusion
#print axioms Klev.C19.open_fails_while_writer
#print axioms Klev.C19.readers_admit_readers
#print axioms Klev.C19.failed_open_releases
#print axioms Klev.C19.close_releases
#print axioms Klev.C19.readonly_rejects
#print axioms Klev.C19.readonly_same_content
#print axioms Klev.C19.reads_keep_log_files
