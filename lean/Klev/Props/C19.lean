/-
C19 — One writer at a time; read-only handles never modify data.
-/
import Klev.Proofs.FlockProofs
import Klev.Proofs.Reach
import Klev.Gen.Facts
import Klev.Proofs.Witness
namespace Klev.C19

/-- Structural facts of the current source (regenerated on every run by go/ast): `Open`
registers a deferred release of the lock for every error exit, `Close` releases it, and
`Publish` / `Delete` test `Readonly` first. A source change that falsifies one of them
breaks this obligation. -/
theorem source_facts :
    Gen.openReleasesLockOnError = true ∧ Gen.closeReleasesLock = true ∧ Gen.readonlyGuards = true := by
  decide

/-- Over every sequence of opens (succeeding, refused, or failing after the lock was taken)
and closes: never more than one read-write handle, and a read-write handle coexists with no
read-only one. -/
theorem exclusion (ops : List LockOp) : LockInv (lockRun true ⟨0, 0⟩ ops) :=
  Klev.lockRun_inv ⟨0, 0⟩ ops ⟨by simp, by simp⟩

/-- While a read-write handle is open every other Open (either mode) fails and changes nothing. -/
theorem open_fails_while_writer (s : LockSt) (h : s.writers = 1) (lf : Bool) :
    (lockStep true s (.openRW lf)).2 = .locked ∧ (lockStep true s (.openRO lf)).2 = .locked ∧
    (lockStep true s (.openRW lf)).1 = s ∧ (lockStep true s (.openRO lf)).1 = s :=
  Klev.open_fails_while_writer s h lf

/-- While only read-only handles are open, read-only opens succeed and read-write opens fail. -/
theorem readers_admit_readers (s : LockSt) (hw : s.writers = 0) (hr : 0 < s.readers) :
    (lockStep true s (.openRW false)).2 = .locked ∧ (lockStep true s (.openRO false)).2 = .ok :=
  Klev.readers_admit_readers s hw hr

/-- The lock is released by a failed Open … -/
theorem failed_open_releases (s : LockSt) :
    (lockStep Gen.openReleasesLockOnError s (.openRW true)).1 = s ∧
    (lockStep Gen.openReleasesLockOnError s (.openRO true)).1 = s := by
  have : Gen.openReleasesLockOnError = true := by decide
  rw [this]
  exact Klev.failed_open_releases s

/-- … and by Close. -/
theorem close_releases (s : LockSt) (hi : LockInv s) (h : s.writers = 1) :
    (lockStep true (lockStep true s .closeRW).1 (.openRW false)).2 = .ok :=
  Klev.close_releases s hi h

/-- A read-only handle rejects Publish and Delete with `ErrReadonly` and changes nothing. -/
theorem readonly_rejects (l : Log) (hro : l.opts.readonly = true) (batch : List (Int × List UInt8 × List UInt8))
    (offs : List Int) :
    l.publish batch = (l, .err .readonly) ∧ l.delete offs = (l, .err .readonly) := by
  unfold Log.publish Log.delete
  simp [hro]

/-- A read-only handle answers like a read-write one on the same files: opening the same
clean directory in either mode gives logs with the same content (and the read theorems
are functions of the content). -/
theorem readonly_same_content (d : List SegDisk) (hd : DiskOK d) (oo1 oo2 : OpenOpts) (l1 l2 : Log)
    (h1 : Log.open d oo1 = .ok l1) (h2 : Log.open d oo2 = .ok l2) :
    Inv l1 ∧ Inv l2 ∧ abs l1 = abs l2 := by
  obtain ⟨a1, a2, _⟩ := open_spec d hd oo1 l1 h1
  obtain ⟨b1, b2, _⟩ := open_spec d hd oo2 l2 h2
  exact ⟨a1, b1, a2.trans b2.symm⟩

/-- Reads through any handle never change the records of any segment (only indexes are
loaded or rebuilt): the log files are untouched. -/
theorem reads_keep_log_files (l : Log) (hinv : Inv l) (off : Int) (mc : Nat) :
    shape (l.consume off mc).1.segs = shape l.segs ∧ shape (l.get off).1.segs = shape l.segs :=
  ⟨(consume_loaded l hinv off mc).shape, (get_loaded l hinv off).shape⟩

end Klev.C19

/-! ### Non-vacuity

The lock theorems at concrete lock states; the handle theorems at the files of the witness log
`Witness.wL` opened read-only with Check (`Witness.wRO`) and read-write with Recover
(`Witness.wRW`) (`Klev/Proofs/Witness.lean`). -/
section NonVacuity
open Klev Klev.Witness

example := Klev.C19.open_fails_while_writer ⟨1, 0⟩ rfl true
example := Klev.C19.readers_admit_readers ⟨0, 2⟩ rfl (by decide)
example := Klev.C19.close_releases ⟨1, 0⟩ (by unfold LockInv; decide) rfl
example := Klev.C19.readonly_rejects wRO wRO_ro [(60, [9], [9])] [4]
example := Klev.C19.readonly_same_content wL.disk wL_diskOK ooRO ooRec wRO wRW open_wRO open_wRW
example := Klev.C19.reads_keep_log_files wL wL_inv 2 3
example := Klev.C19.reads_keep_log_files wRO wRO_inv 7 3

-- evaluated
example : lockRun true ⟨0, 0⟩ [.openRO false, .openRW false, .openRO false, .closeRO, .closeRO, .openRW false,
    .openRO false, .openRW true] = ⟨1, 0⟩ := by decide
example : (wRO.publish [(60, [9], [9])]).2 = .err .readonly ∧ (wRO.delete [4]).2 = .err .readonly ∧
    (abs wRO).live = (abs wL).live ∧ (abs wRW).live = (abs wL).live ∧ (abs wRO).next = 9 ∧ (abs wRW).next = 9 := by
  decide
-- the read-only handle answers like the read-write one
example : (wRO.consume 3 2).2 = (wL.consume 3 2).2 ∧ (wRO.get 7).2 = (wL.get 7).2 ∧
    (wRO.getByKey [1]).2 = (wL.getByKey [1]).2 ∧ (wRO.getByTime 20).2 = (wL.getByTime 20).2 ∧
    (wRO.consume 9 1).2 = (wL.consume 9 1).2 ∧ (wRO.nextOffset).2 = .ok 9 := by decide
-- … and its reads leave every log file as it was (indexes are loaded in memory only where a file exists)
example : (wRO.getByTime 20).1.disk.map (fun d => (d.base, d.ver, d.recs)) =
    wL.disk.map (fun d => (d.base, d.ver, d.recs)) := by decide

end NonVacuity

#print axioms Klev.C19.source_facts
#print axioms Klev.C19.exclusion
#print axioms Klev.C19.open_fails_while_writer
#print axioms Klev.C19.readers_admit_readers
#print axioms Klev.C19.failed_open_releases
#print axioms Klev.C19.close_releases
#print axioms Klev.C19.readonly_rejects
#print axioms Klev.C19.readonly_same_content
#print axioms Klev.C19.reads_keep_log_files
