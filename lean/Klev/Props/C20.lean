/-
C20 — A backup opens to the same log.
-/
import Klev.Proofs.Backup
import Klev.Proofs.Witness
namespace Klev.C20

/-- The backup of any reachable state is a clean directory (Check passes on every segment:
each index names its records) with the same content … -/
theorem backup_clean (l : Log) (hinv : Inv l) : DiskOK (backupDisk l) ∧ absDisk (backupDisk l) = abs l :=
  Klev.backup_clean l hinv

/-- … and opening it with any options gives a log satisfying the invariant with the same
live messages and NextOffset — hence, by the read theorems, the same query results. -/
theorem backup_opens_same (l : Log) (hinv : Inv l) (oo : OpenOpts) (l' : Log)
    (h : Log.open (backupDisk l) oo = .ok l') : Inv l' ∧ abs l' = abs l :=
  Klev.backup_opens_same l hinv oo l' h

/-- Between repeated backups with publish-only steps the content only grows at the end. -/
theorem append_extends (l : Log) (hinv : Inv l) (hro : l.opts.readonly = false)
    (batch : List (Int × List UInt8 × List UInt8)) :
    (abs l).live <+: (abs (l.publish batch).1).live :=
  Klev.append_extends l hinv hro batch

end Klev.C20

/-! ### Non-vacuity: the theorems at the witness log `Witness.wL` and at what `Open` makes of its
backup, read-only with Check (`Witness.wRO`) and read-write with Recover (`Witness.wRW`)
(`Klev/Proofs/Witness.lean`) -/
section NonVacuity
open Klev Klev.Witness

example := Klev.C20.backup_clean wL wL_inv
example := Klev.C20.backup_opens_same wL wL_inv ooRO wRO open_wRO
example := Klev.C20.backup_opens_same wL wL_inv ooRec wRW open_wRW
example := Klev.C20.append_extends wL wL_inv wL_rw [(60, [9], [9]), (61, [], [])]

-- evaluated: four segment directories entries, all with their index file; the backup opened
-- read-write answers every query like the original
example : (backupDisk wL).map (fun d => (d.base, d.recs.map (·.off), d.idxf.isSome)) =
    [(0, [0, 1], true), (2, [2, 4], true), (5, [5, 6], true), (8, [8], true)] := by decide
example : (wRW.consume 3 2).2 = (wL.consume 3 2).2 ∧ (wRW.get 7).2 = (wL.get 7).2 ∧
    (wRW.getByKey [1]).2 = (wL.getByKey [1]).2 ∧ (wRW.getByTime 20).2 = (wL.getByTime 20).2 ∧
    (wRW.stat).2 = (wL.stat).2 ∧ (wRW.publish [(60, [9], [9])]).2 = (wL.publish [(60, [9], [9])]).2 := by decide
example : (abs (wL.publish [(60, [9], [9]), (61, [], [])]).1).live.map (·.off) = [0, 1, 2, 4, 5, 6, 8, 9, 10] := by
  decide

end NonVacuity

#print axioms Klev.C20.backup_clean
#print axioms Klev.C20.backup_opens_same
#print axioms Klev.C20.append_extends
