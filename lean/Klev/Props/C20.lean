/-
C20 — A backup opens to the same log.
-/
import Klev.Proofs.Backup
namespace Klev.C20

/-- The backup of any reachable state is a clean directory (Check passes on every segment:
each index names its records) with the same content … -/
theorem backup_clean (l : Log) (hinv : Inv l) : DiskOK (backupDisk l) ∧ absDisk (backupDisk l) = abs l :=
  Klev.backup_clean l hinv

/-- … and opening it with any options gives a log satisfying the invariant with the same
live messages and NextOffset — hence, by the read theorems, the same query results. -/
theorem backup_opens_same (l : Log) (hinv : Inv l) (oo : OpenOpts) (l' : Log)
    (h : Log.open (backupDisk l) oo = .ok l') : Inv l' ∧ abs l' = abs l :=
  Klev.backup_opens_same l hinv oo l' h

/-- Between repeated backups with publish-only steps the content only grows at the end. -/
theorem append_extends (l : Log) (hinv : Inv l) (hro : l.opts.readonly = false)
    (batch : List (Int × List UInt8 × List UInt8)) :
    (abs l).live <+: (abs (l.publish batch).1).live :=
  Klev.append_extends l hinv hro batch

end Klev.C20

#print axioms Klev.C20.backup_clean
#print axioms Klev.C20.backup_opens_same
#print axioms Klev.C20.append_extends
