/-
C20 — A backup opens to the same log.
-/
import Klev.Proofs.Backup
import Klev.Proofs.BackupIncProofs
import Klev.Proofs.Witness
namespace Klev.C20

/-- The backup of any reachable state is a clean directory (Check passes on every segment:
each index names its records) with the same content … -/
theorem backup_clean (l : Log) (hinv : Inv l) : DiskOK (backupDisk l) ∧ absDisk (backupDisk l) = abs l :=
  Klev.backup_clean l hinv

/-- … and opening it with any options gives a log satisfying the invariant with the same
live messages and NextOffset — hence, by the read theorems, the same query results. -/
theorem backup_opens_same (l : Log) (hinv : Inv l) (oo : OpenOpts) (l' : Log)
    (h : Log.open (backupDisk l) oo = .ok l') : Inv l' ∧ abs l' = abs l :=
  Klev.backup_opens_same l hinv oo l' h

/-- Between repeated backups with publish-only steps the content only grows at the end. -/
theorem append_extends (l : Log) (hinv : Inv l) (hro : l.opts.readonly = false)
    (batch : List (Int × List UInt8 × List UInt8)) :
    (abs l).live <+: (abs (l.publish batch).1).live :=
  Klev.append_extends l hinv hro batch

/-! ### repeated backup into the same directory

`Klev/BackupInc.lean`: `Segment.Backup` copies the files of every segment over what the target
holds; `copyFile` skips an existing file of the same size *and* modification time. The
modification time is runtime behaviour; the model lets an arbitrary oracle decide for every
existing target file of the **same size** whether it is skipped (the real rule skips in a subset
of those cases). -/

open Klev.BackupInc in
/-- **Repeated backup**: after any number of publishes (any batches, any rollovers), a backup over
the previous backup gives exactly the files of the source — whatever the oracle skips: while a
log is only appended to, a file of the same size is the same file. -/
theorem backup_repeat (l : Log) (hinv : Inv l) (hrw : l.opts.readonly = false)
    (bs : List (List (Int × List UInt8 × List UInt8))) (o : Oracle) :
    backupInto l.opts.params o (publishes l bs).disk l.disk = (publishes l bs).disk :=
  Klev.BackupInc.backup_repeat_log l hinv hrw bs o

open Klev.BackupInc in
/-- … hence it is a clean directory (every Check passes) that opens, with any options, to a log with
the invariant and the live messages and NextOffset of the source at the time of the second call. -/
theorem backup_repeat_opens_same (l : Log) (hinv : Inv l) (hrw : l.opts.readonly = false)
    (bs : List (List (Int × List UInt8 × List UInt8))) (o : Oracle) (oo : OpenOpts) (l' : Log)
    (h : Log.open (backupInto l.opts.params o (publishes l bs).disk l.disk) oo = .ok l') :
    Inv l' ∧ abs l' = abs (publishes l bs) :=
  Klev.BackupInc.backup_repeat_opens_same l hinv hrw bs o oo l' h

open Klev.BackupInc in
/-- The first backup, into an empty directory, is a copy. -/
theorem backup_first (p : Params) (o : Oracle) (d : List SegDisk) : backupInto p o d [] = d :=
  Klev.BackupInc.backup_first p o d

open Klev.BackupInc in
/-- **Why the property restricts repeated backups to appended-only sources**: a record replaced by a
different one of the same size (which no sequence of appends does) survives in the target when the
oracle skips same-size files. -/
theorem stale_file_survives :
    backupInto ⟨false, false⟩ skipAll staleB staleA ≠ staleB ∧
    backupInto ⟨false, false⟩ skipAll staleB staleA = staleA ∧
    backupInto ⟨false, false⟩ copyAll staleB staleA = staleB ∧ ¬ Extends staleA staleB :=
  ⟨Klev.BackupInc.stale_file_survives.1, Klev.BackupInc.stale_file_survives.2.1,
   Klev.BackupInc.stale_file_survives.2.2, Klev.BackupInc.stale_not_extends⟩

end Klev.C20

/-! ### Non-vacuity: the theorems at the witness log `Witness.wL` and at what `Open` makes of its
backup, read-only with Check (`Witness.wRO`) and read-write with Recover (`Witness.wRW`)
(`Klev/Proofs/Witness.lean`) -/
section NonVacuity
open Klev Klev.Witness

example := Klev.C20.backup_clean wL wL_inv
example := Klev.C20.backup_opens_same wL wL_inv ooRO wRO open_wRO
example := Klev.C20.backup_opens_same wL wL_inv ooRec wRW open_wRW
example := Klev.C20.append_extends wL wL_inv wL_rw [(60, [9], [9]), (61, [], [])]

-- evaluated: four segment directories entries, all with their index file; the backup opened
-- read-write answers every query like the original
example : (backupDisk wL).map (fun d => (d.base, d.recs.map (·.off), d.idxf.isSome)) =
    [(0, [0, 1], true), (2, [2, 4], true), (5, [5, 6], true), (8, [8], true)] := by decide
example : (wRW.consume 3 2).2 = (wL.consume 3 2).2 ∧ (wRW.get 7).2 = (wL.get 7).2 ∧
    (wRW.getByKey [1]).2 = (wL.getByKey [1]).2 ∧ (wRW.getByTime 20).2 = (wL.getByTime 20).2 ∧
    (wRW.stat).2 = (wL.stat).2 ∧ (wRW.publish [(60, [9], [9])]).2 = (wL.publish [(60, [9], [9])]).2 := by decide
example : (abs (wL.publish [(60, [9], [9]), (61, [], [])]).1).live.map (·.off) = [0, 1, 2, 4, 5, 6, 8, 9, 10] := by
  decide

-- a repeated backup after two more publishes (the second rolls over), the oracle skipping every same-size file
example := Klev.C20.backup_repeat Klev.BackupInc.exL Klev.BackupInc.exL_inv Klev.BackupInc.exL_rw Klev.BackupInc.exBs
  Klev.BackupInc.skipAll
example : Klev.BackupInc.backupInto Klev.BackupInc.exL.opts.params Klev.BackupInc.skipAll
    (Klev.BackupInc.publishes Klev.BackupInc.exL Klev.BackupInc.exBs).disk Klev.BackupInc.exL.disk =
    (Klev.BackupInc.publishes Klev.BackupInc.exL Klev.BackupInc.exBs).disk := by decide

end NonVacuity

#print axioms Klev.C20.backup_clean
#print axioms Klev.C20.backup_opens_same
#print axioms Klev.C20.append_extends
#print axioms Klev.C20.backup_repeat
#print axioms Klev.C20.backup_repeat_opens_same
#print axioms Klev.C20.backup_first
#print axioms Klev.C20.stale_file_survives
