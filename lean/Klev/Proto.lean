/-
Line protocol shared with the Go harness: canonical text forms of messages, results
and directory listings, and their parsers. Core-only.
-/
import Klev.Model
import Klev.Helpers
import Klev.Spec
namespace Klev
namespace Proto

def hexDigit (n : Nat) : Char :=
  if n < 10 then Char.ofNat (48 + n) else Char.ofNat (87 + n)

def hexEncode (bs : List UInt8) : String :=
  String.ofList (bs.flatMap (fun b => [hexDigit (b.toNat / 16), hexDigit (b.toNat % 16)]))

def hexVal (c : Char) : Option Nat :=
  if '0' ≤ c ∧ c ≤ '9' then some (c.toNat - 48)
  else if 'a' ≤ c ∧ c ≤ 'f' then some (c.toNat - 87)
  else if 'A' ≤ c ∧ c ≤ 'F' then some (c.toNat - 55)
  else none

def hexDecodeChars : List Char → Option (List UInt8)
  | [] => some []
  | [_] => none
  | a :: b :: rest => do
    let x ← hexVal a
    let y ← hexVal b
    let r ← hexDecodeChars rest
    pure (UInt8.ofNat (x * 16 + y) :: r)

/-- Hex, or — only in histories judged by equality of whole messages (the free-running profile) — a digest
`~<length>~<16 hex digits>` standing for a long value: it decodes to the digest bytes followed by the decimal
digits of the length, which is as good as the value for comparing messages. -/
def hexDecode (s : String) : Option (List UInt8) :=
  if s.startsWith "~" then
    match s.splitOn "~" with
    | ["", len, dig] => (hexDecodeChars dig.toList).map (fun d => d ++ len.toList.map (fun c => UInt8.ofNat c.toNat))
    | _ => none
  else hexDecodeChars s.toList

def fmtMsg (m : Msg) : String :=
  s!"{m.off}@{m.time}:{hexEncode m.key}:{hexEncode m.val}"

def parseMsg (s : String) : Option Msg :=
  match s.splitOn "@" with
  | [o, rest] =>
    match rest.splitOn ":" with
    | [t, k, v] => do
      let off ← o.toInt?
      let time ← t.toInt?
      let key ← hexDecode k
      let val ← hexDecode v
      pure ⟨off, time, key, val⟩
    | _ => none
  | _ => none

def fmtMsgs (ms : List Msg) : String :=
  String.intercalate " " (toString ms.length :: ms.map fmtMsg)

def parseAll {α : Type} (f : String → Option α) : List String → Option (List α)
  | [] => some []
  | x :: xs => do
    let a ← f x
    let r ← parseAll f xs
    pure (a :: r)

/-- `<n> m1 … mn` -/
def parseMsgs (toks : List String) : Option (List Msg) :=
  match toks with
  | n :: rest => do
    let k ← n.toNat?
    let ms ← parseAll parseMsg rest
    if ms.length = k then pure ms else none
  | [] => none

def parseInts (s : String) : Option (List Int) :=
  if s = "-" ∨ s = "" then some [] else parseAll String.toInt? (s.splitOn ",")

def parseErr (s : String) : Err :=
  match s with
  | "invalidoffset" => .invalidOffset | "notfound" => .notFound | "noindex" => .noIndex
  | "readonly" => .readonly | "logcorrupt" => .logCorrupt | "indexcorrupt" => .indexCorrupt
  | "locked" => .locked | "closed" => .closed | "ctx" => .ctx | "panic" => .panic
  | _ => .other

def fmtErr (e : Err) : String := s!"err {e.name}"

def fmtOut {α : Type} (f : α → String) : Out α → String
  | .ok a => "ok" ++ (let s := f a; if s = "" then "" else " " ++ s)
  | .err e => fmtErr e

def fmtCons (r : Int × List Msg) : String := s!"{r.1} {fmtMsgs r.2}"

def sortInts (l : List Int) : List Int := (l.toArray.qsort (· < ·)).toList
def sortMsgs (l : List Msg) : List Msg := (l.toArray.qsort (fun a b => a.off < b.off)).toList

def fmtInts (l : List Int) : String :=
  String.intercalate " " (toString l.length :: (sortInts l).map toString)

def fmtMulti (r : Helpers.MultiOut) : String :=
  match r.err with
  | none => s!"ok {r.size} {fmtMsgs (sortMsgs r.msgs)}"
  | some e => s!"errp {e.name} {r.size} {fmtMsgs (sortMsgs r.msgs)}"

def fmtStats (s : Stats) : String := s!"{s.segments} {s.messages} {s.size}"

def verNum : Ver → Nat | .v1 => 1 | .v2 => 2

/-- Directory listing: `base:logver:logsize:idxver:idxsize` (`-:-` for a missing index). -/
def fmtSegDisk (p : Params) (d : SegDisk) : String :=
  let lv := if d.recs.isEmpty ∧ d.ver = .v1 then 1 else verNum d.ver
  let ix := match d.idxf with
    | none => "-:-"
    | some f =>
      -- a V1 index file without items has 0 bytes and no version marker
      s!"{verNum f.ver}:{idxSize p f}"
  s!"{d.base}:{lv}:{logSize d.ver d.recs}:{ix}"

def fmtDisk (p : Params) (ds : List SegDisk) : String :=
  String.intercalate " " (toString ds.length :: ds.map (fmtSegDisk p))

/-! parsers of implementation results into `Out` values -/

def parseOutWith {α : Type} (f : List String → Option α) (toks : List String) : Option (Out α) :=
  match toks with
  | "ok" :: rest => (f rest).map Out.ok
  | ["err", c] => some (.err (parseErr c))
  | _ => none

def pInt : List String → Option Int
  | [x] => x.toInt?
  | _ => none

def pMsg : List String → Option Msg
  | [x] => parseMsg x
  | _ => none

def pCons : List String → Option (Int × List Msg)
  | n :: rest => do
    let nxt ← n.toInt?
    let ms ← parseMsgs rest
    pure (nxt, ms)
  | [] => none

def pDel : List String → Option (List Msg × Int)
  | sz :: rest => do
    let s ← sz.toInt?
    let ms ← parseMsgs rest
    pure (ms, s)
  | [] => none

def pIntList : List String → Option (List Int)
  | n :: rest => do
    let k ← n.toNat?
    let xs ← parseAll String.toInt? rest
    if xs.length = k then pure xs else none
  | [] => none

def pStats : List String → Option (Stats × Int)
  | [a, b, c, d] => do
    let x ← a.toInt?
    let y ← b.toInt?
    let z ← c.toInt?
    let w ← d.toInt?
    pure (⟨x, y, z⟩, w)
  | _ => none

def parseMulti (toks : List String) : Option Helpers.MultiOut :=
  match toks with
  | "ok" :: rest => (pDel rest).map (fun (ms, s) => ⟨none, ms, s⟩)
  | "errp" :: c :: rest => (pDel rest).map (fun (ms, s) => ⟨some (parseErr c), ms, s⟩)
  | _ => none

/-- `k=v` options. -/
def optVal (toks : List String) (k : String) : Option String :=
  toks.findSome? (fun t => match t.splitOn "=" with
    | [a, b] => if a = k then some b else none
    | _ => none)

def optInt (toks : List String) (k : String) (d : Int) : Int :=
  ((optVal toks k).bind String.toInt?).getD d

def optBool (toks : List String) (k : String) : Bool := optInt toks k 0 != 0

end Proto
end Klev
