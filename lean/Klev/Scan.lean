/-
The record scan loop shared by `Segment.Check`, `Recover`, `Reindex`, `Rewrite` and
`Migrate`: read records from the initial position until the reader reports the end of
the file or a framing / checksum failure.
-/
import Klev.Codec
namespace Klev

inductive ScanEnd
  | clean                    -- io.EOF exactly at a record boundary
  | corrupt (e : DecErr)     -- message.ErrCorrupted
deriving DecidableEq, Repr

structure ScanRes where
  recs : List (Nat × Msg)    -- (position, record)
  stop : Nat                 -- position where the scan stopped
  fin  : ScanEnd
deriving Repr

/-- The loop; `fuel` bounds the number of records (every record is ≥ 28 bytes). -/
def scanFrom (v : Ver) (b : List UInt8) : Nat → Nat → List (Nat × Msg) → ScanRes
  | 0, pos, acc => ⟨acc.reverse, pos, .clean⟩
  | fuel + 1, pos, acc =>
    match dec v b pos with
    | .ok m next => scanFrom v b fuel next ((pos, m) :: acc)
    | .eof => ⟨acc.reverse, pos, .clean⟩
    | .bad e => ⟨acc.reverse, pos, .corrupt e⟩

def initialPos : Ver → Nat
  | .v1 => 0
  | .v2 => 8

def scan (v : Ver) (b : List UInt8) : ScanRes := scanFrom v b (b.length + 1) (initialPos v) []

/-- The index a scan derives (`params.NewItem` with `indexTime` from 0). -/
def deriveScan (p : Params) (recs : List (Nat × Msg)) : List Item :=
  deriveFrom p 0 (recs.map (fun pm => ((pm.1 : Int), pm.2)))

end Klev
