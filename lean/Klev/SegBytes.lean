/-
`Segment.Check` and `Segment.Recover` (pkg/segment/segment.go) on the bytes of a
segment's log and index file.
-/
import Klev.Scan
namespace Klev

structure SegFiles where
  base : Int
  log  : List UInt8
  idx  : Option (List UInt8)
deriving DecidableEq, Repr

inductive SegErr
  | logCorrupt | indexCorrupt
deriving DecidableEq, Repr

/-- Only the fields the layout stores take part in the comparison (`index.Read` leaves the
others zero, and so does `NewItem`). -/
def Seg.check (p : Params) (f : SegFiles) : Except SegErr Unit :=
  match logVersion f.log f.base with
  | .error _ => .error .logCorrupt
  | .ok v =>
    let s := scan v f.log
    match s.fin with
    | .corrupt _ => .error .logCorrupt
    | .clean =>
      match f.idx with
      | none => .ok ()
      | some ib =>
        match parseIdx p ib f.base with
        | .error _ => .error .indexCorrupt
        | .ok (_, items) =>
          if items = deriveScan p s.recs then .ok () else .error .indexCorrupt

/-- `Segment.Recover`: the files afterwards. -/
def Seg.recover (p : Params) (f : SegFiles) : Except SegErr SegFiles :=
  match logVersion f.log f.base with
  | .error _ => .error .logCorrupt
  | .ok v =>
    let s := scan v f.log
    -- the valid prefix, re-encoded into `<log>.recover`, replaces the log only when the scan
    -- met corruption; on a clean scan the temp file is removed
    let log' := match s.fin with
      | .corrupt _ => logHdr v ++ encAll v (s.recs.map (·.2))
      | .clean => f.log
    -- positions of the index are those of the scan of the *original* file
    let want := deriveScan p s.recs
    let idx' : Option (List UInt8) := match f.idx with
      | none => none
      | some ib =>
        match parseIdx p ib f.base with
        | .error _ => none                       -- corrupted index: removed, rebuilt on open
        | .ok (iv, items) =>
          if items = want then some ib
          else some (renderIdx p iv want)        -- rewritten in the version it had
    .ok { f with log := log', idx := idx' }

end Klev
