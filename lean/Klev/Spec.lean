/-
L0 — the specification. A log is its live messages (strictly increasing offsets) and the
next offset. Every API result is described by a relation over that. This file is the
trusted statement of what the properties C01–C20 say about API results; it mentions no
segment, index, position or file.

All relations are decidable, so the driver evaluates them on the implementation's own
outputs (the search for a failing input) and the theorems state them of the model.
-/
import Klev.Basic
import Klev.Model
namespace Klev

structure Spec where
  live : List Msg
  next : Int
deriving DecidableEq, Repr, Inhabited

namespace Spec

def WF (s : Spec) : Prop :=
  s.live.Pairwise (fun a b => a.off < b.off) ∧ ∀ m ∈ s.live, 0 ≤ m.off ∧ m.off < s.next

/-- Message times never decrease with offset and are not negative. -/
def Monotone (s : Spec) : Prop :=
  s.live.Pairwise (fun a b => a.time ≤ b.time) ∧ ∀ m ∈ s.live, 0 ≤ m.time

/-- The live messages a cursor at `off` still has to see (`Oldest` and every other
negative offset: all of them). -/
def fromOff (s : Spec) (off : Int) : List Msg := s.live.filter (fun m => decide (off ≤ m.off))

def withKey (ms : List Msg) (k : List UInt8) : List Msg := ms.filter (fun m => decide (m.key = k))

/-- Latest value per key; a message without value means "absent". -/
def latest (s : Spec) (k : List UInt8) : Option (List UInt8) :=
  match (withKey s.live k).getLast? with
  | some m => if m.val = [] then none else some m.val
  | none => none

/-! ### C02 — Publish -/

/-- `batch` carries the effective times. -/
def stampSpec (next : Int) : List (Int × List UInt8 × List UInt8) → List Msg
  | [] => []
  | (t, k, v) :: rest => ⟨next, t, k, v⟩ :: stampSpec (next + 1) rest

def PublishOK (ro : Bool) (s : Spec) (batch : List (Int × List UInt8 × List UInt8))
    (r : Out Int) (s' : Spec) : Prop :=
  if ro then r = .err .readonly ∧ s' = s
  else r = .ok (s.next + batch.length) ∧ s'.next = s.next + batch.length ∧
       s'.live = s.live ++ stampSpec s.next batch

/-! ### C03 — Consume -/

def ConsumeOK (s : Spec) (off : Int) (mc : Nat) (r : Out (Int × List Msg)) : Prop :=
  if off = offsetNewest then r = .ok (s.next, [])
  else if off > s.next then r = .err .invalidOffset
  else match r with
    | .err _ => False
    | .ok (nxt, ms) =>
      ms <+: fromOff s off ∧ ms.length ≤ mc ∧
      (match ms.getLast? with
       | some lm => nxt = lm.off + 1
       | none => nxt ≤ s.next ∧ (∀ m ∈ fromOff s off, nxt ≤ m.off) ∧
                 (fromOff s off = [] → nxt = s.next)) ∧
      (off < nxt ∨ nxt = s.next)

/-! ### C04 — Get -/

def GetOK (s : Spec) (off : Int) (r : Out Msg) : Prop :=
  if off = offsetOldest then
    (match s.live.head? with | none => r = .err .invalidOffset | some m => r = .ok m)
  else if off = offsetNewest then
    (match s.live.getLast? with | none => r = .err .invalidOffset | some m => r = .ok m)
  else if off < 0 then (match r with | .ok _ => False | .err _ => True)
  else match s.live.find? (fun m => decide (m.off = off)) with
    | some m => r = .ok m
    | none => if off < s.next then r = .err .notFound else r = .err .invalidOffset

/-! ### C09 — key lookups -/

def GetByKeyOK (keys : Bool) (s : Spec) (k : List UInt8) (r : Out Msg) : Prop :=
  if ¬ keys then r = .err .noIndex
  else match (withKey s.live k).getLast? with
    | some m => r = .ok m
    | none => r = .err .notFound

def ConsumeByKeyOK (keys : Bool) (s : Spec) (k : List UInt8) (off : Int) (mc : Int)
    (r : Out (Int × List Msg)) : Prop :=
  if ¬ keys then r = .err .noIndex
  else if off = offsetNewest then r = .ok (s.next, [])
  else if off > s.next then True
  else match r with
    | .err _ => False
    | .ok (nxt, ms) =>
      let F := withKey (fromOff s off) k
      ms <+: F ∧ (ms.length : Int) ≤ max mc 1 ∧ (F ≠ [] → ms ≠ []) ∧
      (match ms.getLast? with
       | some lm => nxt = lm.off + 1
       | none => nxt = s.next)

/-! ### C10 — time lookups -/

def GetByTimeOK (times : Bool) (s : Spec) (t : Int) (r : Out Msg) : Prop :=
  if ¬ times then r = .err .noIndex
  else match s.live.find? (fun m => decide (t ≤ m.time)) with
    | some m => r = .ok m
    | none => r = .err .notFound ∨ (s.live = [] ∧ r = .err .invalidOffset)

/-! ### C12 — Delete -/

def sumSizes (v : Ver) (p : Params) (ms : List Msg) : Int :=
  (ms.map (fun m => recSize v m + p.size)).sum

def removeAll (live del : List Msg) : List Msg := live.filter (fun m => !del.contains m)

def DeleteOK (ro : Bool) (p : Params) (s : Spec) (offs : List Int)
    (r : Out (List Msg × Int)) (s' : Spec) : Prop :=
  if ro then r = .err .readonly ∧ s' = s
  else if offs = [] then r = .ok ([], 0) ∧ s' = s
  else if ∃ o ∈ offs, o < 0 then r = .err .invalidOffset ∧ s' = s
  else match r with
    | .err e => s' = s ∧ e = .notFound ∧ (∃ o ∈ offs, ∀ m ∈ s.live, o < m.off)
    | .ok (del, size) =>
      del.Sublist s.live ∧ (∀ d ∈ del, d.off ∈ offs) ∧
      s'.live = removeAll s.live del ∧ s'.next = s.next ∧
      -- each deleted message is accounted in the version of the file it was in
      sumSizes .v1 p del ≤ size ∧ size ≤ sumSizes .v2 p del ∧ (size - sumSizes .v1 p del) % 8 = 0

/-- DeleteMulti over live offsets removes them all. -/
def DeleteMultiOK (ro : Bool) (p : Params) (s : Spec) (offs : List Int)
    (r : Out (List Msg × Int)) (s' : Spec) : Prop :=
  DeleteOK ro p s offs r s' ∧
  (¬ ro → (∀ o ∈ offs, ∃ m ∈ s.live, m.off = o) → ∀ m ∈ s'.live, m.off ∉ offs)

/-! ### C13 — Stat -/

def StatOK (s : Spec) (r : Out Stats) : Prop :=
  match r with
  | .ok st => st.messages = s.live.length ∧ 1 ≤ st.segments ∨ (st = ⟨0, 0, 0⟩ ∧ s.live = [])
  | .err _ => False

/-! ### C15 — trim helpers (the `Find*` selections; the trims are DeleteMulti on them) -/

def offsOf (ms : List Msg) : List Int := ms.map (·.off)

def SameSet (a b : List Int) : Prop := (∀ x ∈ a, x ∈ b) ∧ (∀ x ∈ b, x ∈ a)

def FindByOffsetOK (s : Spec) (before : Int) (r : Out (List Int)) : Prop :=
  let b := if before = offsetNewest then s.next else before
  match r with
  | .err _ => False
  | .ok offs =>
    if before = offsetOldest then offs = []
    else SameSet offs (offsOf (s.live.filter (fun m => decide (m.off < b))))

def FindByCountOK (s : Spec) (max : Int) (r : Out (List Int)) : Prop :=
  match r with
  | .err _ => False
  | .ok offs => SameSet offs (offsOf (s.live.take (s.live.length - max).toNat))

/-- Shortest prefix whose estimated removal brings the size below `sz`. -/
def sizePrefix (est : Msg → Int) (sz : Int) : Int → List Msg → List Msg
  | _, [] => []
  | total, m :: ms => if total < sz then [] else m :: sizePrefix est sz (total - est m) ms

def FindBySizeOK (s : Spec) (est : Msg → Int) (statSize sz : Int) (r : Out (List Int)) : Prop :=
  match r with
  | .err _ => False
  | .ok offs => SameSet offs (offsOf (sizePrefix est sz statSize s.live))

/-- A prefix of the live sequence, with no message newer than `t`; when the times of the
publish history never decrease (`mono`), every message older than `t`. -/
def FindByAgeOK (mono : Bool) (s : Spec) (t : Int) (r : Out (List Int)) : Prop :=
  match r with
  | .err _ => False
  | .ok offs =>
    (∃ n : Fin (s.live.length + 1), SameSet offs (offsOf (s.live.take n))) ∧
    (∀ m ∈ s.live, m.off ∈ offs → m.time ≤ t) ∧
    (mono → ∀ m ∈ s.live, m.time < t → m.off ∈ offs)

/-! ### C16 — compaction -/

/-- `FindUpdates`: messages not newer than `t` (up to the first newer one, in scan order)
that have a later scanned message with the same key. -/
def scanned (s : Spec) (t : Int) : List Msg := s.live.takeWhile (fun m => decide (m.time ≤ t))

def hasLaterSameKey : List Msg → List Msg
  | [] => []
  | m :: ms => if ms.any (fun m' => m'.key == m.key) then m :: hasLaterSameKey ms else hasLaterSameKey ms

def FindUpdatesOK (s : Spec) (t : Int) (r : Out (List Int)) : Prop :=
  match r with
  | .err _ => False
  | .ok offs => SameSet offs (offsOf (hasLaterSameKey (scanned s t)))

def firstOfKeyNoValue : List Msg → List (List UInt8) → List Msg
  | [], _ => []
  | m :: ms, seen =>
    if seen.contains m.key then firstOfKeyNoValue ms seen
    else if m.val = [] then m :: firstOfKeyNoValue ms (m.key :: seen)
    else firstOfKeyNoValue ms (m.key :: seen)

def FindDeletesOK (s : Spec) (t : Int) (r : Out (List Int)) : Prop :=
  match r with
  | .err _ => False
  | .ok offs => SameSet offs (offsOf (firstOfKeyNoValue (scanned s t) []))

/-- What C16 promises of a compaction step that removed `del` (reported) from `s`. -/
def keysOf (ms : List Msg) : List (List UInt8) := ms.map (·.key)

def CompactLatestOK (s s' : Spec) : Prop := ∀ k ∈ keysOf s.live, latest s' k = latest s k

def CompactUpdatesRemovedOK (s : Spec) (t : Int) (del : List Msg) : Prop :=
  ∀ d ∈ del, d.time ≤ t ∧ ∃ m ∈ s.live, m.key = d.key ∧ d.off < m.off

def CompactDeletesRemovedOK (s : Spec) (t : Int) (del : List Msg) : Prop :=
  ∀ d ∈ del, d.time ≤ t ∧ d.val = [] ∧ ∀ m ∈ s.live, m.key = d.key → d.off ≤ m.off

/-- After `CompactUpdatesMulti` on a log with non-decreasing times: at most one message per
key among those not newer than the cut-off. -/
def AtMostOnePerKey (s' : Spec) (t : Int) : Prop :=
  ((s'.live.filter (fun m => decide (m.time ≤ t))).map (·.key)).Nodup

/-! ### decidability (the driver evaluates every relation) -/

macro "dec_rel" n:ident : tactic =>
  `(tactic| (unfold $n; repeat (first | infer_instance | split)))

instance (s : Spec) : Decidable (WF s) := by unfold WF; infer_instance
instance (s : Spec) : Decidable (Monotone s) := by unfold Monotone; infer_instance
instance (a b : List Int) : Decidable (SameSet a b) := by unfold SameSet; infer_instance
instance (ro s b r s') : Decidable (PublishOK ro s b r s') := by dec_rel PublishOK
instance (s off mc r) : Decidable (ConsumeOK s off mc r) := by dec_rel ConsumeOK
instance (s off r) : Decidable (GetOK s off r) := by dec_rel GetOK
instance (k s key r) : Decidable (GetByKeyOK k s key r) := by dec_rel GetByKeyOK
instance (k s key off mc r) : Decidable (ConsumeByKeyOK k s key off mc r) := by dec_rel ConsumeByKeyOK
instance (t s x r) : Decidable (GetByTimeOK t s x r) := by dec_rel GetByTimeOK
instance (ro p s offs r s') : Decidable (DeleteOK ro p s offs r s') := by dec_rel DeleteOK
instance (s r) : Decidable (StatOK s r) := by dec_rel StatOK
instance (s b r) : Decidable (FindByOffsetOK s b r) := by dec_rel FindByOffsetOK
instance (s b r) : Decidable (FindByCountOK s b r) := by dec_rel FindByCountOK
instance (s e a b r) : Decidable (FindBySizeOK s e a b r) := by dec_rel FindBySizeOK
instance (m s b r) : Decidable (FindByAgeOK m s b r) := by dec_rel FindByAgeOK
instance (s b r) : Decidable (FindUpdatesOK s b r) := by dec_rel FindUpdatesOK
instance (s b r) : Decidable (FindDeletesOK s b r) := by dec_rel FindDeletesOK
instance (s s') : Decidable (CompactLatestOK s s') := by unfold CompactLatestOK; infer_instance
instance (s t d) : Decidable (CompactUpdatesRemovedOK s t d) := by unfold CompactUpdatesRemovedOK; infer_instance
instance (s t d) : Decidable (CompactDeletesRemovedOK s t d) := by unfold CompactDeletesRemovedOK; infer_instance
instance (s t) : Decidable (AtMostOnePerKey s t) := by unfold AtMostOnePerKey; infer_instance

end Spec
end Klev
