"""What MANIFEST.json claims, per property."""

HOOK_COMMITS = []  # filled by setup from `git -C /repo log --grep '^verif:'`

COMMON_NOTE = ("Trusted: Lean kernel (axioms propext/Quot.sound/Classical.choice only, audited each run); the L0 relations in "
               "lean/Klev/Spec.lean; the correspondence harness (differential testing: L1 = code is observed on generated cases, not "
               "proved); Go runtime/stdlib and third-party libraries are modelled, not verified. ")

CLAIMS = {
    'C03': dict(
        text="Proved in Lean (consume_ok): on every state satisfying the invariant Inv (hence, by the reachability theorem of C01, every state reached by any history), for every offset incl. the relative ones and every maxCount >= 1, Consume returns a non-empty prefix of the live messages at or after the offset, never more than maxCount, in order, without gap or duplicate, or nothing exactly at NextOffset, and the hand-off between segments skips holes; the literal binary-search loops of index.Consume and segment.Consume return the lower bound / the owning segment for every sorted input and never panic or diverge. Correspondence: every offset in [-5, next+2] x maxCount {1,2,3,7,32,40} in reached states incl. read-only sessions; ConsumeOK is also evaluated on the implementation's own results.",
        note=COMMON_NOTE + ''),
    'C04': dict(
        text="Proved in Lean (get_ok): on every state with Inv, for every offset, Get returns the live message at that offset, ErrNotFound for a deleted or trimmed one, ErrInvalidOffset beyond NextOffset, the first / last live message for OffsetOldest / OffsetNewest (also while the head is empty); index.Get and segment.Get are exact-match searches on every sorted input. Correspondence: every offset in [-3, next+2] in reached states incl. read-only sessions, GetOK on the implementation's results.",
        note=COMMON_NOTE + ''),
    'C10': dict(
        text="Proved in Lean: index.Time (incl. the sort.Search loop) returns the position of the first item at or after the time on every index with non-decreasing timestamps; getByTime_ok on every state with Inv and TimesInv; and unconditionally (lookups_ok_monoX, getByTime_ok_mono): after any history from an empty directory whose publish times never decrease, GetByTime/OffsetByTime return the first live message at or after the time, across segment boundaries with ties and with an empty head. A proved counterexample (cx_getByTime) shows that monotone live messages are not enough: the writer's time carry survives Delete, which is why the property quantifies over the publish history. Correspondence: monotone histories with runs of equal timestamps straddling segment boundaries, every microsecond from first-2 to last+2, GetByTimeOK on the implementation's results.",
        note=COMMON_NOTE + 'Hypothesis kept visible: times are >= 0 (index timestamps start from 0); negative times are the open known finding D12.'),
    'C02': dict(
        text="Proved in Lean: publish_step / publish_offsets (on every state with Inv, for every batch incl. the empty one and across a rollover at any size, Publish returns next+n and appends exactly the batch stamped next..next+n-1 in order), next_monotone (no operation - delete of the tail or of everything, reopen with any options, index removal, migrate, recover - moves NextOffset backwards), never_reused (over any history an assigned offset is never assigned again), live_below_next. Correspondence: histories biased to 'delete the tail / delete everything -> reopen -> publish', PublishOK and NextOffsetOK evaluated on the implementation's results (incl. the offsets written back into the caller's slice); batches at the edge of the 64 MiB body limit (accepted as a whole or leaving nothing behind); crash and power-loss images of publish / delete / reopen judged for what concerns offsets (NextOffset after recovery, the append after it).",
        note=COMMON_NOTE + ''),
    'C07': dict(
        text='Proved in Lean on the byte-level model: the record scan shared by Check/Recover returns exactly the valid records (at their positions) of any file = valid records ++ anything that does not parse as a record there; Check passes iff the log is clean and the index (if present) is the derived one (check_iff); Recover in closed form (recover_eq): it keeps exactly the valid prefix, removes / keeps / rewrites the index accordingly; Recover is a byte-for-byte no-op on everything Check accepts; after Recover Check passes and a second Recover changes nothing (check_after_recover, recover_idempotent); appending keeps Check passing; a tail shorter than a record header is always corruption; a cut record (both versions) never parses. Correspondence: real Segment.Check/Recover vs Seg.check/Seg.recover on the same bytes for every truncation length, every single-byte corruption position, zero/FF/random tails, every index damage, 4 index configurations, monotone and non-monotone times; plus Check-after-Recover and publish-then-Check through the API.',
        note=COMMON_NOTE + "V1: truncation only (V1's CRC does not cover the record header), as the property says. For arbitrary garbage tails 'does not parse as a record there' stays a hypothesis of recover_eq (discharged for empty tails, tails shorter than a header and cut records)."),
    'C13': dict(
        text="Proved in Lean for all messages (any key/value bytes <= 64 MiB, any int64 offset/time), both versions: a record reads back identical from the position it was written at whatever surrounds it; Size(m) = bytes added; records are back to back at the model's positions; index items of the 4 layouts round-trip; the regenerated layout constants equal the documented ones (proof obligation by decide); Stat = number of segments / messages / exact bytes on every state reachable from a read-write open of an empty directory (stat_spec_reachable). Correspondence: bytes written by the real message/index writers = bytes of the Lean encoder, the Lean decoder reads what Go wrote, Go reads back through both reader kinds; Stat vs os.Stat vs the model in API histories (also as the first call after a reopen with index files removed); Log.Size of published messages; the body limit at its edge in both formats.",
        note=COMMON_NOTE + ''),
    'C01': dict(
        text='The L0 state abs(l) is the content of the log. Proved in Lean: fidelity / fidelity_from_empty - every state reached from an empty directory (or from any state with Inv) by any sequence of publish / delete / consume / get / GC / close + reopen with any options, index removal, migrate and recover satisfies the invariant, and its content is the L0 list semantics of the history (published messages in order with their offsets, minus exactly what deletes reported, never anything else); publish appends exactly the stamped batch across rollover at any size; rollover and reads change no content; Consume shows a prefix of the content. Correspondence: full observation (scan from OffsetOldest to NextOffset, NextOffset, Stat, directory listing) after every step of generated histories with deletes, trims, compaction, GC, reopen with re-drawn options, index removal and migrate, compared with the L1 model exactly and with the L0 list semantics.',
        note=COMMON_NOTE + ''),
    'C09': dict(
        text='Proved in Lean for an arbitrary hash function: getByKey returns the last live message whose key is byte-equal (nil = empty), ErrNotFound if none, ErrNoIndex without the index; consumeByKey returns a non-empty prefix of the live messages with that key, never another key, and ends at NextOffset - on every state with the invariants, and unconditionally after any history from an empty directory (getByKey_ok_run, consumeByKey_ok_run, lookups_ok_runX: the key-hash invariant is established by open and preserved by every step). Correspondence: histories over a key set with nil, empty and real FNV-1a-64 colliding pairs; after every step GetByKey/OffsetByKey for all keys of the set plus absent keys and ConsumeByKey from every cursor offset.',
        note=COMMON_NOTE + 'The radix tree (go-adaptive-radix-tree) is modelled as a map from hash to positions in insertion order (trusted).'),
    'C11': dict(
        text="Proved in Lean: in every state reached by any history, every index (the file of every segment and every loaded index) lists exactly the offsets and byte positions of its segment's records; removing any subset of index files and reopening with any options keeps the invariant and the content (hence every query result, by the read theorems of C03/C04/C09/C10); a rebuilt index is exactly the derived one; with the key index configured every index file and loaded index carries exactly the FNV-1a hashes of its segment's keys over any history (index_files_key_hashes), and exactly its segment's message times over any history whose publish times never decrease (index_files_timestamps). Correspondence: at every close real segment.Find + Segment.Check on every segment, directory listing with sizes/versions, differential reopen with index subsets removed, read-write and read-only, all queries incl. Stat and Delete/Backup on segments without index file.",
        note=COMMON_NOTE + "Key hashes / timestamps of index items are covered by the invariants of C09/C10 (KeysInv', TimesInv over reachable histories) and by the byte comparison of Segment.Check at every close."),
    'C12': dict(
        text="Proved in Lean: delete_step - on every state with Inv and every offset set, Delete keeps the invariant and satisfies DeleteOK in all outcomes of the swap (reader: dropped / rebased / same base; head: emptied / tail deleted / reopened): reported messages are live, requested, complete for the chosen segment; the new content is the old minus exactly them; NextOffset unchanged; size = sum of storage sizes; relative offsets rejected; empty set a no-op; delete_lowest (the lowest requested live offset is always removed, so DeleteMulti makes progress), deleteMulti_spec / deleteMulti_complete (DeleteMulti removes exactly the requested live messages, all of them, reports each once, sums the sizes). Correspondence: biased offset sets (last message, whole head, whole reader segment, first of a segment, already deleted, unassigned, negative, everything), DeleteMulti; exact size against the implementation's own directory listing.",
        note=COMMON_NOTE + ''),
    'C17': dict(
        text="Proved in Lean: abs ignores versions, so mixed-version logs satisfy the same read theorems; Migrate to either version while "
             "closed and reopening with any version options keep the invariant, the live sequence and NextOffset; delete-by-rewrite keeps "
             "content for every KeepRewriteVersion/NewSegmentsVersion; after migration every log is in the target version; migrate is "
             "idempotent; after a Delete every segment file is an untouched old file, the new empty head in NewSegmentsVersion, or the rewritten "
             "segment - in its source's version with KeepRewriteVersion, in NewSegmentsVersion without, index file in the same version "
             "(delete_versions); the segment a rollover creates is in NewSegmentsVersion (rollover_version). Correspondence: histories where every reopen re-draws the three version options and may Migrate; version byte "
             "and size of every file observed.",
        note=COMMON_NOTE),
    'C15': dict(
        text='The helpers are client loops over the API; modelled as the same loops over the L1 model. Proved in Lean: the cursor loop from OffsetOldest returns exactly the live messages once and ends at NextOffset for any maxCount >= 1; FindByOffset selects exactly the live offsets below the bound; FindByCount / FindBySize select exactly the shortest prefix that reaches the target (findByCount_eq, findBySize_eq, sizePrefix_minimal) using the exact Stat; FindByAge selects a prefix with no message newer than the time; TrimByOffset/Count/SizeMulti leave the log within the bound (trim*Multi_bound) and remove only a prefix; loops terminate and reads leave the content untouched. Correspondence: bounds below/inside/above the live range on multi-segment states with holes; the Find* selections and the state after Trim*Multi are checked against the L0 relations (prefix, bound holds, not more than required, Stat size below target via a following Stat).',
        note=COMMON_NOTE + "FindByAge's 'none older left' clause under monotone times is decided by the correspondence (relation FindByAgeOK with histMono), not proved; a documented model artefact: findByOffset needs -4 < before (fuel), the implementation has no such limit and the generator covers it."),
    'C16': dict(
        text="Proved in Lean: FindUpdates selects exactly the scanned messages having a later scanned message with the same key bytes; FindDeletes exactly the value-less first-of-key scanned messages; CompactUpdates / CompactDeletes (single and Multi) remove exactly those (compact*_model); compaction never changes the latest value of any key (compactUpdates_latest, compactDeletes_latest, compact_latest for both orders, re-establishing the invariant so that repeated and alternating application is covered); after CompactUpdatesMulti under monotone times at most one message per key remains below the cut-off (compactUpdatesMulti_one_per_key). Correspondence: small key sets with tombstones and nil key, all cut-offs, repeated/alternating compactions; latest-value map before/after, removed-only clauses, at-most-one-per-key evaluated on the implementation's results.",
        note=COMMON_NOTE + 'art.Tree keyed by message key is modelled as an association list (trusted).'),
    'C19': dict(
        text="Proved in Lean on the lock-table model (flock semantics trusted): over all open/close sequences incl. failing opens never two "
             "writers nor a writer with readers; opens fail while a writer is open; readers admit readers only; lock released by Close and by "
             "a failed Open (hypothesis = regenerated structural fact, discharged by decide). On L1: a read-only handle rejects "
             "Publish/Delete with ErrReadonly and changes nothing; both modes open the same content; reads never change records. "
             "Correspondence: random sequences over 3 handles in both modes with failing opens (corrupt index + Check), publishes, deletes and "
             "a digest of all *.log files after every step; plus API histories with read-only sessions answering all queries.",
        note=COMMON_NOTE + "flock(2) between open file descriptions is the parameter of the model (trusted)."),
    'C20': dict(
        text="Proved in Lean: the backup of any reachable state is a clean directory with the same content and opens (any options) to a log "
             "with the invariant and the same live messages and NextOffset; publish-only steps only extend the content. Repeated backup (Klev/BackupInc.lean: per segment the log and index file are copied over the target's, an arbitrary oracle deciding for every existing target file of the same size whether it is skipped - the real rule, same size and modification time, skips in a subset of those cases): after any number of publishes with any rollovers a backup over the previous backup gives exactly the source's files whatever the oracle does (backup_repeat: while a log is only appended to, a file of the same size is the same file), hence a clean directory that opens to the same log (backup_repeat_opens_same); without 'only appended to' a stale same-size file survives (stale_file_survives, a proved counterexample: why the property restricts the repeated case). Correspondence: "
             "Backup through both entry points into fresh and reused directories with publish-only steps in between; real Check + open + "
             "full observation of the backup; source listing unchanged.",
        note=COMMON_NOTE + "The mtime half of the skip rule is runtime behaviour and not modelled (size-equal files are equal when only "
             "appends happened)."),
    'C05': dict(
        text="PARTIAL PROOF (what is missing: the rebasing delete, a proved counterexample = known finding D6; tearing below the "
             "granularity of one write). Proved in Lean, record level (Klev/Crash.lean, Proofs/CrashProofs.lean): Publish (with rollover) and "
             "Delete (every way a rewritten segment is swapped in, in reader and head segments) are programs of file-system steps; for every "
             "state with the invariant, every operation, every prefix of its program (= crash point) and any open options with Recover, Open "
             "succeeds, the log satisfies the invariant (so all views agree and every later call behaves, by C01-C12) and its content is the "
             "acknowledged messages plus a prefix of the batch in flight / the delete applied completely or not at all, NextOffset never "
             "backwards (crash_recovers); the programs end exactly in the model's result (prog_final). Open itself is a program too "
             "(Klev/CrashOpen.lean, Proofs/CrashOpenProofs.lean: Recover's index rewrite; per segment the index removed, the migrated log renamed "
             "in, the index written; the head's writer files): for every directory clean up to the head's index, every Open with any options "
             "and every prefix of its program, reopening with Recover succeeds with the invariant and exactly the same content, and the "
             "directory is again one the theorem applies to, so a crash inside a recovery inside a recovery loses nothing either "
             "(open_crash_reopens, open_crash_disk, open_crash_reopens_empty); the program ends in the model's Open (open_prog_final). Without "
             "'non-rebasing' crash_recovers is false: rebase_crash_counterexample (= known finding D6, replayed on the real code). Byte level: a "
             "cut record never parses (both formats); for every log content, batch, byte count that reached the file and index state, Recover "
             "keeps exactly the whole records, the result passes Check, can be appended to, and recovering again changes nothing "
             "(torn_batch_recovers/check). Regenerated order facts (record before item before in-memory append; fsync before rename; old head "
             "fsynced before the new segment; the order of remove/rename inside Override/Rename/Remove) are obligations. Tie of the programs to "
             "the code: the FS tap snapshots the directory after every file-system mutation of every operation; the driver requires every "
             "image's listing to be one of the model's crash states of that operation (Publish, Delete and Open alike), and judges the real "
             "Open(Recover) of every image (plus torn appends at every byte in thorough, crashes inside recovery, retry of an interrupted Open, "
             "Recover with eager migration) against the L0 relation CrashOK.",
        note=COMMON_NOTE + "Crash images are taken at write/rename/remove boundaries plus torn appends; sector-level reordering inside one write "
             "is not modelled. Open known findings (known_findings.json): D6 (rebasing delete), KF-V1-TORN.",
        technique="Lean 4 theorems over a hand-written model (FS programs of Publish/Delete/Open at record level with every crash point; byte-level "
                  "recovery of the head for every cut) + regenerated go/ast facts as proof obligations + crash-image correspondence against the "
                  "real Open(Recover), incl. membership of every observed directory in the model's crash states"),
    'C06': dict(
        text="PARTIAL PROOF (what is missing: that fsync makes exactly the fsynced prefix durable is the fault model, checked on the code by the "
             "loss profile, not derived). Proved in Lean, record level (Klev/Loss.lean, Proofs/LossProofs.lean): for every state with the "
             "invariant, whatever number j of whole records of the head log survives and whatever is left of the head index file, Open with "
             "Recover succeeds, the log satisfies the invariant, holds exactly the messages that were not lost and continues after the last "
             "survivor (loss_recovers); if Sync acknowledged when the head held n <= j records, every live message below the acknowledged "
             "offset survives and NextOffset is not below it (synced_survive). Byte level: with a synced prefix of records and any number of "
             "bytes of a later batch surviving, with any index content, recovery keeps every synced record and a prefix of the batch. "
             "Regenerated facts as obligations: Sync fsyncs log then index; the old head is fsynced before a new segment is created; "
             "rewritten/recovered/migrated files are fsynced before rename - which is why only the head's files can lose a tail. "
             "Correspondence: the FS tap tracks the fsynced length of every file (renames carry it); after every operation loss images cut "
             "files back to lengths between fsynced and current (each is also lost a second time right after its recovery); the driver checks "
             "that only the head's files had an unsynced tail (the assumption of the model) and judges the real Open(Recover) of every image: "
             "every live message below the last offset acknowledged by Sync/Close/AutoSync-Publish present and intact, NextOffset not below it.",
        note=COMMON_NOTE + "Fault model = tail loss of unsynced appends per file with atomic renames and atomic 8-byte headers (as the "
             "property states it); directory-entry durability is observed through the dirsync tap, not modelled.",
        technique="Lean 4 theorems over a hand-written model (record-level loss states of the head; byte-level recovery for every cut) + "
                  "regenerated go/ast facts as proof obligations + loss-image correspondence against the real Open(Recover)"),
    'C18': dict(
        text="Proved in Lean over an interleaving semantics of notify.Offset whose three instruction lists are regenerated from the current "
             "pkg/notify/notify.go by a go/ast translator (obligation notify_prog_eq, by decide), for every schedule of any number of Wait / Set "
             "/ Close calls and cancellations, with no bound on threads or steps: a Wait below the notifier's offset returns nil in its first "
             "step without touching shared state; a parked waiter stays parked under every event except close(b) of a Set/Close holding its "
             "channel and its own cancellation (stays_parked, woken_only_by_set_close); no lost wake-up: a waiter past its probe whose offset "
             "has been passed has its channel closed or a setter in flight that closes it within three of its own steps and is never blocked "
             "(parked_not_passed, setter_closes, no_lost_wakeup); a cancelled parked waiter returns ctx.Err(); Wait after Close at or beyond "
             "the offset fails; no schedule panics (double close, send on closed) or deadlocks; the offset is monotone. The wrapper's "
             "composition (Wait(ctx, offset) then exactly Consume/ConsumeByKey with the caller's arguments; Publish then Set(returned offset); "
             "Close closes the notifier first; notifier starts at NextOffset) is a set of regenerated go/ast facts (obligation source_facts), so "
             "'the result is what Consume returns at that moment' reduces to C03/C09. Correspondence: (a) the real notify.Offset driven "
             "instruction by instruction through verif pause points against the model under the same schedule; (b) the real BlockingLog with "
             "up to 8 waiters, observed at quiescence, against the model and the L0 rules.",
        note=COMMON_NOTE + "Go channel semantics are the parameters of the interleaving model (trusted). Fairness (an enabled goroutine eventually "
             "runs) is the Go scheduler's; the theorems state enabledness, not eventual scheduling."),
    'C14': dict(
        text="PARTIAL PROOF. Proved in Lean on the byte-level model of the V2 record reader (tied to pkg/message by the fmt/damage "
             "correspondence of C13/C07): any change confined to <= 4 consecutive bytes of the bytes a CRC covers changes the CRC-32C "
             "(GF(2) algebra of the register, unconditional; in particular every single-bit flip); a record cut anywhere (both formats) is "
             "classified end-of-data / short header / short data, never a record; a file cut inside a header is an error, not an end of data; "
             "untouched records read back whatever surrounds them. The log-level statement over all read calls, multi-segment layouts and "
             "damage positions is decided by the damaged-read correspondence: real logs, damaged copies reopened and swept with every read "
             "call, judged against the model's answers on the undamaged log (never a differing message, overwritten record => error, other "
             "segments answer as before, no panic, allocation bound).",
        note=COMMON_NOTE + "Partial: CRC-32C cannot detect every 5-8 byte overwrite or every change of a length field (a 2^-32 chance of an "
             "undetected change is inherent to the format, so the universally quantified statement is false of any implementation of this "
             "format); those cases are observed, not proved. Open known finding KF-ZERO-V1 (zero fill from byte 0 of the segment with base 0).",
        technique="Lean 4 theorems over a hand-written byte-level model (CRC algebra, record decoder) + damaged-read correspondence against the "
                  "real log"),
    'C08': dict(
        text="PARTIAL PROOF. Proved in Lean (Klev/Conc.lean, Proofs/ConcProofs.lean) for every schedule of any number of Publish / Delete / "
             "read calls, with no bound on threads or steps: the lock discipline - reads atomic under the segment-list read lock, Publish "
             "committing by the head index append under writerMu, Delete committing by the swap under deleteMu and the write locks - is "
             "linearizable: the commit log read as a sequential run of the specification returns exactly what every call returned and ends in "
             "exactly the visible state; each finished call committed once, between invocation and response (real-time order); publishers "
             "receive disjoint consecutive ranges; a visible message disappears only by a Delete that reports it; the locks are exclusive. "
             "The one read that looks at the growing head twice, ConsumeByKey (next offset, then keys; the head's index grows under the writer "
             "lock, not the read lock), is proved separately (Klev/HeadRead.lean): whatever publishes land between the two looks, in the source "
             "order it returns the sequential answer of one of the two states and never steps over a message with the key "
             "(consumeByKey_two_looks, consumeByKey_no_skip); in the other order it does neither (consumeByKey_other_order_counterexample = "
             "defect D22: found, replayed on the real code, repaired); likewise GetByTime past every message with a head that was empty when looked at "
             "(getByTime_empty_head, defect D21); how often each read looks at its index is a regenerated fact (reads_look_once). "
             "That the source follows this discipline is a set of regenerated go/ast facts (whole read calls under the read lock; every writer "
             "access in Publish/Delete/NextOffset/Sync under the writer lock, following the statement structure; Sync's fsync and reported "
             "offset in one critical section; rollover swap under the write lock; ConsumeByKey reads the next offset once, before the keys) and "
             "a proof obligation. The statement about the real code over real schedules is decided by exploration judged by the Lean driver: "
             "(a) every pause window of a held call (Publish, Delete, GC, and every kind of read held between its look at the index and its use "
             "of it) x one or two other calls of every kind: the driver enumerates the sequential orders "
             "consistent with the recorded real time and accepts when the sequential L1 model returns exactly the results and ends with exactly "
             "the directory listing observed; (b) free-running mixes (incl. page-straddling records against head rewrites) under the Go race "
             "detector, judged by witness-free rules.",
        note=COMMON_NOTE + "Partial by nature: goroutine schedules, the kernel's page-wise visibility of a write and data races are runtime "
             "behaviour no theorem about a model can exhibit; the atomicity of each critical section is the assumption of the Conc model and "
             "is what the T3 facts, the pause-window exploration and the race detector check on the code.",
        technique="Lean 4 theorems over a hand-written interleaving model of the lock discipline + regenerated go/ast lock facts as proof "
                  "obligations + schedule exploration of the real code against the Lean sequential model (order search per window) + "
                  "free-running histories under the Go race detector judged by the Lean driver"),
}

NOT_APPLICABLE = []
