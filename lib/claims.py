"""What MANIFEST.json claims, per property."""

HOOK_COMMITS = []  # filled by setup from `git -C /repo log --grep '^verif:'`

COMMON_NOTE = ("Trusted: Lean kernel (axioms propext/Quot.sound/Classical.choice only, audited each run); the L0 relations in "
               "lean/Klev/Spec.lean; the correspondence harness (differential testing: L1 = code is observed on generated cases, not "
               "proved); Go runtime/stdlib and third-party libraries are modelled, not verified. ")

CLAIMS = {
    'C03': dict(
        text="Proved in Lean for every sorted index / every strictly increasing list of segment bases and every offset: the literal "
             "binary-search loops of index.Consume and segment.Consume return the lower bound / the owning segment, never panic or "
             "diverge. The L1 model (hand-off between segments, caught-up handling) is tied to the code by a correspondence run that "
             "issues every offset in [-5, next+2] x maxCount {1,2,3,7,32,40} in reached states and evaluates the L0 relation ConsumeOK "
             "on the implementation's own results.",
        note=COMMON_NOTE + "The refinement theorem consume_ok (L1 satisfies ConsumeOK on every reachable state) is in progress; until "
             "it is in Props/C03 the log-level claim rests on the correspondence."),
    'C04': dict(
        text="Proved in Lean for every sorted index and every offset: index.Get is exact-match search (found / before start / after end / "
             "not found), segment.Get selects the owning segment with the before-start classification. Correspondence: every offset in "
             "[-3, next+2] in reached states, L0 relation GetOK on the implementation's results.",
        note=COMMON_NOTE + "Log-level refinement theorem get_ok in progress."),
    'C10': dict(
        text="Proved in Lean for every index with non-decreasing timestamps and every time: index.Time (incl. the sort.Search loop) "
             "returns the position of the first item at or after the time. Correspondence: monotone histories with runs of equal "
             "timestamps straddling segment boundaries, every microsecond from first-2 to last+2, L0 relation GetByTimeOK.",
        note=COMMON_NOTE + "Hypothesis kept visible: times are >= 0 (index timestamps start from 0). Log-level refinement theorem in progress."),
}

CLAIMS.update({
    'C02': dict(
        text="Proved in Lean (publish_step): on every state satisfying the invariant, for every batch incl. the empty one and across a "
             "rollover at any size, Publish returns next+n, appends exactly the batch stamped next..next+n-1 in order, keeps the invariant; "
             "every live offset is < next. Correspondence: histories biased to 'delete the tail / delete everything -> reopen -> publish', "
             "PublishOK and NextOffsetOK evaluated on the implementation's results (incl. the offsets written back into the caller's slice).",
        note=COMMON_NOTE + "Never-reused across delete/reopen additionally needs the delete and open step theorems (in progress); until then "
             "that part rests on the correspondence."),
    'C07': dict(
        text="Proved in Lean on the byte-level model: the record scan shared by Check/Recover returns exactly the valid records (at their "
             "positions) of any file = valid records ++ anything that does not parse as a record there, reports clean iff nothing follows; "
             "a tail shorter than a record header is always corruption; Recover is a byte-for-byte no-op on every segment Check accepts. "
             "Correspondence: real Segment.Check/Recover vs Seg.check/Seg.recover on the same bytes for every truncation length, every "
             "single-byte corruption position, zero/FF/random tails, every index damage, 4 index configurations; plus Check-after-Recover "
             "and publish-then-Check through the API.",
        note=COMMON_NOTE + "V1: truncation only (V1's CRC does not cover the record header). check_iff / check_after_recover theorems in progress."),
    'C13': dict(
        text="Proved in Lean for all messages (any key/value bytes <= 64 MiB, any int64 offset/time), both versions: a record reads back "
             "identical from the position it was written at whatever surrounds it; Size(m) = bytes added; records are back to back at the "
             "model's positions; index items of the 4 layouts round-trip; the regenerated layout constants equal the documented ones "
             "(proof obligation by decide). Correspondence: bytes written by the real message/index writers = bytes of the Lean encoder, the "
             "Lean decoder reads what Go wrote, Go reads back through both reader kinds; Stat vs os.Stat vs the model in API histories.",
        note=COMMON_NOTE + "Stat exactness over all reachable states rests on the correspondence until stat_spec is proved."),
})

NOT_APPLICABLE = []
