"""What MANIFEST.json claims, per property."""

HOOK_COMMITS = []  # filled by setup from `git -C /repo log --grep '^verif:'`

COMMON_NOTE = ("Trusted: Lean kernel (axioms propext/Quot.sound/Classical.choice only, audited each run); the L0 relations in "
               "lean/Klev/Spec.lean; the correspondence harness (differential testing: L1 = code is observed on generated cases, not "
               "proved); Go runtime/stdlib and third-party libraries are modelled, not verified. ")

CLAIMS = {
    'C03': dict(
        text="Proved in Lean for every sorted index / every strictly increasing list of segment bases and every offset: the literal "
             "binary-search loops of index.Consume and segment.Consume return the lower bound / the owning segment, never panic or "
             "diverge. The L1 model (hand-off between segments, caught-up handling) is tied to the code by a correspondence run that "
             "issues every offset in [-5, next+2] x maxCount {1,2,3,7,32,40} in reached states and evaluates the L0 relation ConsumeOK "
             "on the implementation's own results.",
        note=COMMON_NOTE + "The refinement theorem consume_ok (L1 satisfies ConsumeOK on every reachable state) is in progress; until "
             "it is in Props/C03 the log-level claim rests on the correspondence."),
    'C04': dict(
        text="Proved in Lean for every sorted index and every offset: index.Get is exact-match search (found / before start / after end / "
             "not found), segment.Get selects the owning segment with the before-start classification. Correspondence: every offset in "
             "[-3, next+2] in reached states, L0 relation GetOK on the implementation's results.",
        note=COMMON_NOTE + "Log-level refinement theorem get_ok in progress."),
    'C10': dict(
        text="Proved in Lean for every index with non-decreasing timestamps and every time: index.Time (incl. the sort.Search loop) "
             "returns the position of the first item at or after the time. Correspondence: monotone histories with runs of equal "
             "timestamps straddling segment boundaries, every microsecond from first-2 to last+2, L0 relation GetByTimeOK.",
        note=COMMON_NOTE + "Hypothesis kept visible: times are >= 0 (index timestamps start from 0). Log-level refinement theorem in progress."),
}

NOT_APPLICABLE = []
