#!/usr/bin/env python3
"""Regenerate MANIFEST.json from lib/claims.py (kept valid at all times)."""
import json, os, sys
sys.path.insert(0, os.path.dirname(os.path.abspath(__file__)))
import claims

VERIF = os.path.dirname(os.path.dirname(os.path.abspath(__file__)))


def hook_commits():
    """The hook commits of /repo (subject starts with `verif:`), oldest first."""
    import subprocess
    try:
        out = subprocess.run(['git', '-C', '/repo', 'log', '--reverse', '--format=%H %s'], stdout=subprocess.PIPE, text=True).stdout
        return [l.split()[0] for l in out.splitlines() if l.split(' ', 1)[1].startswith('verif:')]
    except Exception:
        return claims.HOOK_COMMITS


m = {
    "version": 1,
    "setup_cmd": "./setup.sh",
    "hooks": {
        "guard": "verif",
        "enable": "go build -tags verif (the harness module /verif/harness replaces github.com/klev-dev/klevdb => /repo)",
        "baseline_off_cmd": "cd /repo && GOFLAGS=-mod=mod GOPROXY=off go test -json -vet=off -count=1 -timeout 25m ./...",
        "source_commits": hook_commits(),
        "add_only": True,
    },
    "engines": [
        {"name": "lean-model", "path": "lean/", "serves_properties": sorted(claims.CLAIMS),
         "kind_free_text": "Lean 4 model (L0 spec, L1 mechanism, L2 bytes, concurrency layers) with machine-checked theorems; core-only driver executable"},
        {"name": "kvh", "path": "harness/", "serves_properties": sorted(claims.CLAIMS),
         "kind_free_text": "Go harness linking the real packages from /repo (-tags verif): generators, replay, translators (constants, notifier program, structural facts)"},
        {"name": "check", "path": "check", "serves_properties": sorted(claims.CLAIMS),
         "kind_free_text": "orchestrator: rebuild tie, build+audit proofs, correspondence, shrink, known findings, evidence"},
    ],
    "checks": [],
    "notes": "Technique family: machine-checked proof in Lean 4 with a hand-written model tied to /repo by regenerated pieces and a correspondence check. See DESIGN.md.",
    "not_applicable": claims.NOT_APPLICABLE,
}
for pid in sorted(claims.CLAIMS):
    c = claims.CLAIMS[pid]
    m["checks"].append({
        "property_id": pid,
        "quick_cmd": "./check %s --tier quick" % pid,
        "thorough_cmd": "./check %s --tier thorough" % pid,
        "evidence_file": "/verif/evidence/%s.json" % pid,
        "replay_cmd_template": "./check %s --replay {path}" % pid,
        "engine": "lean-model",
        "level_claimed": {"category": c.get("category", "proof"), "text": c["text"], "design_ref": c.get("design_ref", "DESIGN.md §5 " + pid)},
        "level_note": c["note"],
        "technique": c.get("technique", "Lean 4 theorems over a hand-written model + model/code correspondence check"),
    })
json.dump(m, open(os.path.join(VERIF, "MANIFEST.json"), "w"), indent=1)
print("MANIFEST.json: %d checks" % len(m["checks"]))
