"""Per-property configuration of ./check: which correspondence profiles run at which
size, and the texts that go into the evidence files."""

TRUSTED_BASE = [
    "Lean 4.33.0 kernel; axioms allowed in property theorems: propext, Quot.sound, Classical.choice (audited by #print axioms on every run)",
    "the L0 relations of lean/Klev/Spec.lean say what the property says (hand-written, ~300 lines)",
    "the model<->code tie is a correspondence check (differential testing through harness/cmd/kvh and lean/Driver): L1 = code is observed on the generated cases, not proved",
    "regenerated constants (Klev/Gen/Consts.lean) are evaluated by the Go compiler through verif-tagged exports",
    "Go runtime/stdlib (os files, ReadAt short-read convention, rename, fsync), hash/crc32, hash/fnv, art radix tree, flock(2), mmap: modelled, not verified",
]

DEFAULT_RULE = ("histories of API calls generated from one PRNG seed (publish/delete/trim/compact/gc/sync/reopen with re-drawn "
                "options, read-only sessions, index removal, migrate; every helper in its single, Multi and MultiOffsets form, Compact, Log.Size), "
                "each followed by the property's observations (half of the time led by one query of a random kind, so that any call can be the "
                "first to meet a missing index file or an unloaded segment); every line is one call executed on the "
                "real code and on the Lean model; a history is distinct by the hash of its op list and non-trivial when it reached >= 2 "
                "segments and had an effective delete/trim/compact or a reopen")

DEFAULT_ASSUMPTIONS = [
    "sequential use of one handle (concurrency is C08/C18)",
    "int64 wrap-around of offsets/positions is not modelled",
    "message bodies <= 64 MiB",
]


def seq(flavor, n, ops, **kw):
    d = dict(profile='seq', flavor=flavor, n=n, ops=ops)
    d.update(kw)
    return d


def prof(profile, n, ops=1, **kw):
    d = dict(profile=profile, flavor='-', n=n, ops=ops)
    d.update(kw)
    return d


PROPS = {
    'C01': dict(quick=dict(profiles=[seq('C01', 960, 40)]), thorough=dict(profiles=[seq('C01', 3200, 100)])),
    'C02': dict(quick=dict(profiles=[seq('C02', 960, 40), prof('crash', 32, 10)]),
                thorough=dict(profiles=[seq('C02', 3200, 100), prof('crash', 96, 40)]),
                # of the crash / power-loss images only what concerns offsets: NextOffset after recovery, and the
                # append after it (an offset assigned twice shows there); the rest of those images is C05 / C06, and so
                # is the window of the rebasing delete (known finding D6 of C05)
                rule=DEFAULT_RULE + "; plus, rarely, batches whose largest body is 64 MiB + d (d = -29..+2, both formats: accepted as a whole iff d <= 0, "
                     "a refused batch leaves nothing behind and the next publish continues where the log was); plus a small crash / power-loss profile "
                     "(every file-system step of publish / delete / reopen snapshotted, torn appends, lost unsynced tails), of which this property judges "
                     "what concerns offsets: NextOffset after Open(Recover) not backwards and above every live offset, and the append after recovery "
                     "(an offset assigned twice shows there as a failed Check)",
                viol_line_regex=r'^VIOL \d+ (?!.*\brebase=1\b)(?!Crash(Content|Views|RecoverAgain|Retry|Migrate|OpenFails)\b|Loss(BelowSync|NotPrefix|Views|RecoverAgain|OpenFails)\b)'),
    'C03': dict(quick=dict(profiles=[seq('C03', 384, 24)]), thorough=dict(profiles=[seq('C03', 1600, 40)])),
    'C04': dict(quick=dict(profiles=[seq('C04', 960, 30)]), thorough=dict(profiles=[seq('C04', 3200, 60)])),
    'C05': dict(quick=dict(profiles=[prof('crash', 96, 10)]), thorough=dict(profiles=[prof('crash', 320, 112)]),
                viol_line_regex=r'^VIOL \d+ \S+ (?!loss\.img)',
                rule="workloads of publish (with rollover), delete in reader and head segments (rebasing, emptying, tail), sync, close and reopen with "
                     "Recover / eager migration; the FS tap snapshots the directory after every file-system mutation (crash image) and, for every append, "
                     "torn variants (every byte in thorough); sampled images are crashed again inside their recovery (depth 2); each image is opened with "
                     "the real Open(Recover) and observed (scan, NextOffset, Get of every offset, key/time lookups, Stat, recover-again, append+Check); a "
                     "case is one image, distinct by its description line, non-trivial when the operation in flight is a publish or a delete"),
    'C06': dict(quick=dict(profiles=[prof('crash', 96, 10)]), thorough=dict(profiles=[prof('crash', 320, 112)]),
                viol_line_regex=r'^VIOL \d+ \S+ (?!crash\.img)',
                rule="same workloads; the tap tracks the fsynced length of every file (renames carry it); after every operation power-loss images cut "
                     "files back to lengths between fsynced and current (all files at once, each single file at sampled / every length, random vectors; "
                     "8-byte headers atomic); sampled images lose power a second time right after their recovery (+again) or die inside it (+inrec); "
                     "`died` images: the process dies with its unsynced tails in place, a new process opens with Recover and calls Sync - whose "
                     "answer must acknowledge everything - and then the power goes; a case is one loss image, non-trivial when at least one file "
                     "is actually cut"),
    'C07': dict(quick=dict(profiles=[prof('damage', 96, 1)]), thorough=dict(profiles=[prof('damage', 640, 2)]),
                rule="head segments of 1-6 random messages x 4 index configurations (V2; V1 for truncation): every truncation length, every "
                     "single-byte corruption position after the file header, zero/0xFF/random tails, every index damage; real Segment.Check/"
                     "Recover vs Seg.check/Seg.recover of the Lean byte-level model on the same bytes; a case is one damaged segment, distinct "
                     "by its bytes, non-trivial when it is not the undamaged segment"),
    'C08': dict(quick=dict(profiles=[prof('sched', 160, 10), prof('free', 48, 120, race=True)]),
                thorough=dict(profiles=[prof('sched', 3200, 16), prof('free', 960, 250, race=True)]),
                rule="(a) deterministic windows: one call (Publish, Delete, Consume, GC) is held at one of its verif pause points (after the rollover swap; "
                     "after each record of a batch; between the file writes and the index append; after a delete chose its segment / rewrote it / before it swaps; between a reader's "
                     "index lookup and its record read; between a GC's index unload and its file unload) while one or two other calls of any kind run, "
                     "to completion or until they block on a lock the held call owns; every call carries invocation/response times of one logical clock; "
                     "the driver enumerates the sequential orders consistent with those times and accepts when, for one of them, the sequential model "
                     "returns exactly the results (Stat excepted) and ends with exactly the directory listing observed; a full scan follows every "
                     "window; (b) free-running: 1-3 publishers (records of 1.5-4.5 KB that straddle pages among small ones), 1-3 cursor consumers, "
                     "getters, 1-2 deleters aiming at the tail and at old offsets, NextOffset/Sync/GC/Stat, on logs with rollover 512-9000 bytes, built "
                     "with the race detector; the recorded history is judged without a sequential witness: disjoint consecutive publish ranges in "
                     "real-time order; every returned message is the published one; a gap in a Consume answer is a Delete that reported it and was "
                     "invoked before the answer; no stale 'caught up'; no error a sequential run could not give; no offset reported deleted twice; "
                     "a Delete whose lowest offset was live throughout deletes it; NextOffset/Sync within the acknowledged/invoked bounds; an "
                     "answer that ends the log or a segment ends it between batches (BatchAtomic); final scan = published - reported; final Check "
                     "passes; plus the race detector's verdict and any crash of the process (a fault in unmapped memory); in a third of the histories "
                     "one goroutine does nothing but GC(0), in a third every record is larger than a page and the head long-lived, in a third every "
                     "record reaches its file in two halves microseconds apart (verif hook: a write in progress as a concurrent reader of the file may "
                     "see it), in a quarter the log starts with closed segments whose index files are missing and several readers meet them at once, "
                     "in half the publishers leave the time to Publish (monotone times: the final Check counts in full); a case is one window / one history, "
                     "non-trivial when the held call reached its window and another call ran inside it / when a delete and a rollover happened",
                assumptions=["the Go race detector sees the races of the schedules that ran (it is not exhaustive)",
                             "pause points mark the windows the property names; windows inside the kernel (page-wise visibility of one write) are only reached by the free-running part",
                             "Stat is excepted from linearizability, as the property states"]),
    'C09': dict(quick=dict(profiles=[seq('C09', 576, 30)]), thorough=dict(profiles=[seq('C09', 2400, 60)])),
    'C10': dict(quick=dict(profiles=[seq('C10', 768, 30)]), thorough=dict(profiles=[seq('C10', 2400, 60)])),
    'C11': dict(quick=dict(profiles=[seq('C11', 576, 30)]), thorough=dict(profiles=[seq('C11', 1600, 60)])),
    'C12': dict(quick=dict(profiles=[seq('C12', 960, 40)]), thorough=dict(profiles=[seq('C12', 3200, 100)])),
    'C13': dict(quick=dict(profiles=[prof('fmt', 12000), seq('C13', 576, 30)]), thorough=dict(profiles=[prof('fmt', 300000), seq('C13', 1600, 80)])),
    'C14': dict(quick=dict(profiles=[prof('dread', 32, 8)]), thorough=dict(profiles=[prof('dread', 64, 108)]),
                rule="multi-segment V2 logs built through the API (rollover 120-300 bytes, key index, time index on/off, deletes); a baseline sweep of every "
                     "read call (Consume from every offset in [-2, next+1] x maxCount {1,3,32}, Get of every offset, GetByKey of every key and an absent "
                     "one, ConsumeByKey, GetByTime of every microsecond) judged as ordinary calls; then per damage - a single-bit flip, a 1-8 byte "
                     "overwrite, a truncation, a zero-filled tail at sampled positions (quick) or at every byte position of every segment log "
                     "(thorough), index files intact - a copy is damaged, reopened with the same options (no Check/Recover) and swept again; the "
                     "harness names the records with changed bytes (from the intact index), the driver judges: no panic; every returned message is "
                     "the published one; an answer that would include an overwritten record is an error; calls not reaching the damaged segment "
                     "answer as before; bytes allocated per call <= 64 MiB + 8 x file + 16 MiB; a case is one damaged directory, non-trivial when a "
                     "read reached a damaged record",
                assumptions=["index files intact (as the property states)", "the harness computes which records had bytes changed from the intact index (trusted)",
                             "overwrites of 5-8 bytes and changes of the length fields are detected by CRC-32C only with probability 1-2^-32: the theorems "
                             "cover bursts <= 4 bytes outside the length fields; the rest is observed"]),
    'C15': dict(quick=dict(profiles=[seq('C15', 960, 40)]), thorough=dict(profiles=[seq('C15', 3200, 100)])),
    'C16': dict(quick=dict(profiles=[seq('C16', 960, 40)]), thorough=dict(profiles=[seq('C16', 3200, 100)])),
    'C17': dict(quick=dict(profiles=[seq('C17', 960, 40)]), thorough=dict(profiles=[seq('C17', 3200, 100)])),
    'C18': dict(quick=dict(profiles=[prof('notify', 480, 18), prof('blocking', 160, 24), prof('bstorm', 320, 20, race=True)]),
                thorough=dict(profiles=[prof('notify', 16000, 28), prof('blocking', 3200, 40), prof('bstorm', 16000, 40, race=True)]),
                rule="(a) schedules of Wait/Set/Close calls on the real notify.Offset driven instruction by instruction through the verif pause points "
                     "(token taken / probed / released / stored / closed): a controller picks which goroutine runs next, cancels contexts and spawns "
                     "calls; after every event the status of every call (held at a pause point, blocked in the library, returned with which result) is "
                     "compared with the Lean interleaving model under the same schedule; (b) the real BlockingLog with up to 8 waiters in "
                     "ConsumeBlocking/ConsumeByKeyBlocking (offsets relative, below, at and beyond NextOffset), publishes (also empty), deletes, reads, "
                     "GC, cancellations and Close issued one at a time, observed at quiescence: who returned with what (judged as a Consume/"
                     "ConsumeByKey result at that moment) and who is still blocked; (c) free-running storms under the race detector: 2-8 waiters "
                     "(offsets relative, below, inside, at and beyond what will be published), 1-3 publishers, cancellations, then Close; every "
                     "answer must be one Consume/ConsumeByKey gives in some state the log went through (content, order, no holes, maxCount, next, "
                     "an empty Consume answer only at its own offset, below the initial NextOffset never empty), every waiter whose offset was "
                     "passed is back before Close, errors only ctx (if cancelled) / closed (after Close) / invalid offset (beyond NextOffset); a "
                     "case is one schedule, non-trivial when some waiter blocked and some waiter returned",
                assumptions=["Go channel semantics (buffered channel of capacity 1 as a token, close wakes all receivers, select picks any ready case) are the "
                             "parameters of the model (trusted)",
                             "quiescence is observed by polling with a grace period of 3 s for calls that are due to return",
                             "in the storms 'stays blocked while nothing happens' cannot be observed (publishes happen all the time); the notify and blocking profiles observe it"]),
    'C19': dict(quick=dict(profiles=[prof('lock', 3200, 12), seq('C19', 288, 24)]), thorough=dict(profiles=[prof('lock', 40000, 16), seq('C19', 800, 50)])),
    'C20': dict(quick=dict(profiles=[seq('C20', 768, 30)]), thorough=dict(profiles=[seq('C20', 2400, 60)])),
}
