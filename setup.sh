#!/bin/sh
# Build the framework from files on disk only (offline).
set -e
cd "$(dirname "$0")"
export GOFLAGS=-mod=mod GOPROXY=off
mkdir -p harness/bin evidence replays work
cp /repo/go.sum harness/go.sum
(cd harness && go build -tags verif -o bin/kvh ./cmd/kvh)
mkdir -p lean/Klev/Gen
for p in consts:Consts notifyprog:Notify facts:Facts searchprog:Search; do
  prof=${p%%:*}; name=${p##*:}
  ./harness/bin/kvh -profile "$prof" -repo /repo > lean/Klev/Gen/$name.lean.new
  if ! cmp -s lean/Klev/Gen/$name.lean.new lean/Klev/Gen/$name.lean 2>/dev/null; then
    mv lean/Klev/Gen/$name.lean.new lean/Klev/Gen/$name.lean
  else
    rm lean/Klev/Gen/$name.lean.new
  fi
done
(cd lean && lake build Klev kdriver && for f in Klev/Props/C*.lean; do m=$(echo "$f" | sed 's/\.lean$//; s/\//./g'); lake build "$m"; done)
echo setup-ok
