#!/bin/sh
# tools/confirm_mutant.sh <mutant-dir>   — confirm in a scratch worktree that: the suite passes with the
# change, the demonstration passes without it and fails with it. Prints a one-line verdict.
set -u
d="$(realpath "$1")"
wt=/tmp/cm/$(basename "$(dirname "$d")")-$(basename "$d")-$$
export GOFLAGS=-mod=mod GOPROXY=off
mkdir -p /tmp/cm
git -C /repo worktree add -q "$wt" HEAD || exit 2
cleanup() { git -C /repo worktree remove --force "$wt" >/dev/null 2>&1; }
trap cleanup EXIT
cd "$wt" || exit 2
demo=$(ls "$d"/*_test.go | head -1)
pkgdir=.
# a demo in a sub-package says so in its package clause
pk=$(grep -m1 '^package ' "$demo" | awk '{print $2}')
case "$pk" in
  klevdb|klevdb_test) pkgdir=. ;;
  *) pkgdir=$(find pkg -type d -name "${pk%_test}" | head -1); [ -z "$pkgdir" ] && pkgdir=. ;;
esac
git apply "$d/patch.diff" || { echo "VERDICT patch-does-not-apply"; exit 1; }
go build ./... >/dev/null 2>&1 || { echo "VERDICT mutant-does-not-build"; exit 1; }
go build -tags verif ./... >/dev/null 2>&1 || { echo "VERDICT mutant-does-not-build-verif"; exit 1; }
if go test -vet=off -count=1 ./... >/tmp/cm/suite.$$ 2>&1; then s=pass; else
  # the pinned suite has a rare flake in TestConcurrent (seen on the unchanged tree too): retry once
  if grep -q -- '--- FAIL: TestConcurrent' /tmp/cm/suite.$$ && [ "$(grep -c -- '^--- FAIL' /tmp/cm/suite.$$)" = "1" ] && go test -vet=off -count=1 ./... >/tmp/cm/suite.$$ 2>&1; then s=pass; else s=FAIL; fi
fi
cp "$demo" "$pkgdir/"
# a demonstration that observes fsyncs / pause points through the hooks is built with the hook tag
tags=""
grep -q '^//go:build verif' "$demo" && tags="-tags verif"
tn=$(grep -o 'func Test[A-Za-z0-9_]*' "$demo" | head -1 | awk '{print $2}')
if go test $tags -vet=off -count=1 -run "^$tn\$" "./$pkgdir" >/tmp/cm/demo_with.$$ 2>&1; then w=pass; else w=FAIL; fi
git checkout -q -- . 
if go test $tags -vet=off -count=1 -run "^$tn\$" "./$pkgdir" >/tmp/cm/demo_without.$$ 2>&1; then wo=pass; else wo=FAIL; fi
echo "VERDICT suite-with-mutant=$s demo-with-mutant=$w demo-without=$wo test=$tn pkg=$pkgdir"
rm -f /tmp/cm/*.$$
