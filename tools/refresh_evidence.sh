#!/bin/sh
# tools/refresh_evidence.sh — run every quick check on the unchanged tree so that the committed
# evidence files describe it (run before committing, after any run against a seeded change).
cd "$(dirname "$0")/.." || exit 2
git -C /repo diff --quiet || { echo "/repo dirty"; exit 2; }
rc=0
for id in $(python3 -c "import sys; sys.path.insert(0,'lib'); import claims; print(' '.join(sorted(claims.CLAIMS)))"); do
  ./check "$id" --tier quick | grep -v '^KNOWN-FINDING' | tail -1
  [ "${PIPESTATUS:-0}" = 0 ] || true
done
python3-vt - <<'PY'
import json, glob, jsonschema
s = json.load(open('/root/.vp/EVIDENCE.schema.json'))
bad = 0
for f in sorted(glob.glob('/verif/evidence/C*.json')):
    e = json.load(open(f))
    try:
        jsonschema.validate(e, s)
        c = e['coverage']
        if e['level'] == 'proof' and c['discharged'] != c['obligations']:
            raise Exception('discharged %s != obligations %s' % (c['discharged'], c['obligations']))
        if e.get('violations'):
            raise Exception('violations=%s' % e['violations'])
    except Exception as ex:
        bad += 1
        print('BAD', f, str(ex)[:200])
print('evidence files: %d, bad: %d' % (len(glob.glob('/verif/evidence/C*.json')), bad))
PY
