#!/usr/bin/env python3
"""tools/reseed.py <name> [props…] — re-run checks against an already kept seeded change
(/verif/seeded/<name>/patch.diff applied to /repo, undone straight afterwards) and update meta.json.
Without props: the properties already listed in meta.json."""
import json, os, re, shutil, subprocess, sys, time
VERIF = os.path.dirname(os.path.dirname(os.path.abspath(__file__)))
name = sys.argv[1]
dst = os.path.join(VERIF, 'seeded', name)
mp = os.path.join(dst, 'meta.json')
meta = json.load(open(mp)) if os.path.exists(mp) else {'breaks_property': name.split('-')[0], 'checks_run': {}}
props = sys.argv[2:] or list(meta.get('checks_run', {})) or [meta['breaks_property']]
tier = os.environ.get('RESEED_TIER', 'quick')
for p in props:
    if subprocess.run(['git', '-C', '/repo', 'diff', '--quiet']).returncode != 0:
        print('/repo dirty'); sys.exit(2)
    # the evidence file describes the unchanged tree: keep it across the run against the change
    evp = os.path.join(VERIF, 'evidence', p + '.json')
    evidence_backup = open(evp).read() if os.path.exists(evp) else None
    subprocess.run(['git', '-C', '/repo', 'apply', os.path.join(dst, 'patch.diff')], check=True)
    t0 = time.time()
    try:
        r = subprocess.run([os.path.join(VERIF, 'check'), p, '--tier', tier], cwd=VERIF, stdout=subprocess.PIPE, stderr=subprocess.STDOUT, text=True, timeout=3600)
        lines = [l for l in r.stdout.splitlines() if l.startswith(('VIOLATION', 'OK', 'KNOWN'))]
        rc = r.returncode
    finally:
        subprocess.run(['git', '-C', '/repo', 'checkout', '--', '.'])
        subprocess.run(['git', '-C', '/repo', 'clean', '-fdq'])
        if evidence_backup is not None:
            open(evp, 'w').write(evidence_backup)
    replay = None
    for m in re.finditer(r'replay=(\S+)', '\n'.join(lines)):
        if os.path.exists(m.group(1)):
            if replay is None:
                replay = json.load(open(m.group(1)))
                shutil.copy(m.group(1), os.path.join(dst, 'replay-%s.json' % p))
            os.remove(m.group(1))
    meta.setdefault('checks_run', {})[p] = {
        'exit': rc, 'tier': tier, 'lines': [l[:300] for l in lines if not l.startswith('KNOWN')][:6], 'wall_s': round(time.time() - t0, 1),
        'caught': rc == 1 and any(l.startswith('VIOLATION') for l in lines), 'with_failing_input': rc == 1 and any(l.startswith('VIOLATION') for l in lines) and not all('no-failing-input-found' in l for l in lines if l.startswith('VIOLATION')),
        'replay_kind': (replay or {}).get('kind'), 'relation': (replay or {}).get('relation_or_op')}
    print(name, p, rc, [l[:160] for l in lines if not l.startswith('KNOWN')][:3])
json.dump(meta, open(mp, 'w'), indent=1)
