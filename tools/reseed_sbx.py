#!/usr/bin/env python3
"""tools/reseed_sbx.py <sandbox-dir> <name>… — like tools/reseed.py, but in a private copy of /verif and /repo
(tools/sandbox.sh layout), so that several lanes can run side by side and /repo is never touched. Updates
seeded/<name>/meta.json and replay-<prop>.json in /verif."""
import json, os, re, subprocess, sys, time
VERIF = os.path.dirname(os.path.dirname(os.path.abspath(__file__)))
D = sys.argv[1]
names = sys.argv[2:]
tier = os.environ.get('RESEED_TIER', 'quick')
if not os.path.isdir(os.path.join(D, 'verif')):
    subprocess.run([os.path.join(VERIF, 'tools', 'sandbox.sh'), D], check=True, stdout=subprocess.DEVNULL)


def clean_repo():
    subprocess.run(['git', '-C', D + '/repo', 'checkout', '-q', '--', '.'])
    subprocess.run(['git', '-C', D + '/repo', 'clean', '-fdq'])


def sync():
    subprocess.run(['rsync', '-a', '--exclude', '.git', '--exclude', 'work', '--exclude', 'evidence', '--exclude', 'replays',
                    '--exclude', 'harness/go.mod', '--exclude', '.lake', VERIF + '/', D + '/verif/'], check=True)
    subprocess.run(['rsync', '-a', VERIF + '/lean/.lake/', D + '/verif/lean/.lake/'], check=True)
    subprocess.run(['rsync', '-a', '--delete', '/repo/', D + '/repo/'], check=True)
    clean_repo()


sync()
for name in names:
    dst = os.path.join(VERIF, 'seeded', name)
    mp = os.path.join(dst, 'meta.json')
    meta = json.load(open(mp))
    if meta.get('applies') is False:
        print(name, 'skipped (does not apply any more)', flush=True)
        continue
    props = list(meta.get('checks_run', {})) or [meta['breaks_property']]
    if os.environ.get('RESEED_PRIMARY'):
        # only the check that is expected to catch it: the property it breaks, or the first check that caught it
        caught = [q for q, c in meta.get('checks_run', {}).items() if c.get('caught')]
        props = [meta['breaks_property']] if meta['breaks_property'] in caught or not caught else caught[:1]
    for p in props:
        clean_repo()
        r = subprocess.run(['git', '-C', D + '/repo', 'apply', os.path.join(dst, 'patch.diff')])
        if r.returncode != 0:
            print(name, p, 'PATCH DOES NOT APPLY', flush=True)
            continue
        rd = D + '/verif/replays'
        for f in (os.listdir(rd) if os.path.isdir(rd) else []):
            os.remove(os.path.join(rd, f))
        t0 = time.time()
        env = dict(os.environ, KLEV_REPO=D + '/repo')
        rc, lines = 2, []
        try:
            r = subprocess.run([D + '/verif/check', p, '--tier', tier], cwd=D + '/verif', env=env, stdout=subprocess.PIPE,
                               stderr=subprocess.STDOUT, text=True, timeout=3600)
            lines = [l for l in r.stdout.splitlines() if l.startswith(('VIOLATION', 'OK', 'KNOWN'))]
            rc = r.returncode
        finally:
            clean_repo()
        if os.environ.get('RESEED_DRY'):
            print(name, p, rc, [l[:120] for l in lines if not l.startswith('KNOWN')][:2], flush=True)
            continue
        replay = None
        for m in re.finditer(r'replay=(\S+)', '\n'.join(lines)):
            if os.path.exists(m.group(1)) and replay is None:
                txt = open(m.group(1)).read().replace(m.group(1), 'seeded/%s/replay-%s.json' % (name, p)).replace(D + '/verif/', '')
                replay = json.loads(txt)
                open(os.path.join(dst, 'replay-%s.json' % p), 'w').write(txt)
        viol = any(l.startswith('VIOLATION') for l in lines)
        meta.setdefault('checks_run', {})[p] = {
            'exit': rc, 'tier': tier,
            'lines': [l[:300].replace(D + '/verif/', '/verif/') for l in lines if not l.startswith('KNOWN')][:6],
            'wall_s': round(time.time() - t0, 1),
            'caught': rc == 1 and viol,
            'with_failing_input': rc == 1 and viol and not all('no-failing-input-found' in l for l in lines if l.startswith('VIOLATION')),
            'replay_kind': (replay or {}).get('kind'), 'relation': (replay or {}).get('relation_or_op')}
        print(name, p, rc, [l[:120] for l in lines if not l.startswith('KNOWN')][:2], flush=True)
    if not os.environ.get('RESEED_DRY'):
        json.dump(meta, open(mp, 'w'), indent=1)
print('LANE-DONE', D, flush=True)
