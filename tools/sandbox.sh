#!/bin/sh
# tools/sandbox.sh [dir]  — a private copy of /verif and /repo (default /tmp/sbx) to try a changed klevdb against the
# checks without touching /repo (which a running sweep reads). Usage afterwards:
#   git -C /tmp/sbx/repo apply some.diff ; KLEV_REPO=/tmp/sbx/repo /tmp/sbx/verif/check C13 --tier quick
# Remove the directory when done.
set -e
D=${1:-/tmp/sbx}
rm -rf "$D"; mkdir -p "$D"
rsync -a --exclude .git --exclude work --exclude evidence /verif/ "$D/verif/"
mkdir -p "$D/verif/evidence" "$D/verif/work"
rsync -a /repo/ "$D/repo/"
sed -i "s#=> /repo#=> $D/repo#" "$D/verif/harness/go.mod"
echo "$D"
