#!/bin/sh
# tools/sbx_try.sh <patch.diff> <prop>… — pre-screen a changed klevdb in the private sandbox (tools/sandbox.sh),
# never touching /repo. VIOLATION / OK lines are printed; replays stay in /tmp/sbx/verif/replays.
set -e
D=${SBX:-/tmp/sbx}
P=$1; shift
[ -d "$D/verif" ] || /verif/tools/sandbox.sh "$D" >/dev/null
rsync -a --exclude .git --exclude work --exclude evidence --exclude replays --exclude harness/go.mod --exclude .lake /verif/ "$D/verif/"
rsync -a /verif/lean/.lake/ "$D/verif/lean/.lake/"
rsync -a --delete /repo/ "$D/repo/"   # the committed state of /repo (its working tree is clean unless a seed run is in progress)
git -C "$D/repo" checkout -q -- . ; git -C "$D/repo" clean -fdq
git -C "$D/repo" apply "$P"
for p in "$@"; do
  (cd "$D/verif" && KLEV_REPO=$D/repo VERIF_SEED=${VERIF_SEED:-1} ./check "$p" --tier ${TIER:-quick} 2>&1 | grep -v "^KNOWN" | grep "^VIOLATION\|^OK\|^ERROR\|rror" | head -5)
done
git -C "$D/repo" checkout -q -- . ; git -C "$D/repo" clean -fdq
