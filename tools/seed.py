#!/usr/bin/env python3
"""tools/seed.py <mutant-dir> <Cxx> <name> [extra props…]
Confirm a seeded change in a scratch worktree, keep it as /verif/seeded/<name>/, run the check(s) of
the given properties against it (applied to /repo, undone straight afterwards) and record the outcome."""
import json, os, re, shutil, subprocess, sys, time
VERIF = os.path.dirname(os.path.dirname(os.path.abspath(__file__)))
src, prop, name = sys.argv[1], sys.argv[2], sys.argv[3]
props = [prop] + sys.argv[4:]
out = subprocess.run([os.path.join(VERIF, 'tools', 'confirm_mutant.sh'), src], stdout=subprocess.PIPE, stderr=subprocess.STDOUT, text=True).stdout
verdict = [l for l in out.splitlines() if l.startswith('VERDICT')]
verdict = verdict[-1] if verdict else 'VERDICT none: ' + out[-300:]
print(verdict)
ok = 'suite-with-mutant=pass' in verdict and 'demo-with-mutant=FAIL' in verdict and 'demo-without=pass' in verdict
dst = os.path.join(VERIF, 'seeded', name)
if not ok:
    print('not confirmed; not kept')
    sys.exit(1)
os.makedirs(dst, exist_ok=True)
for fn in os.listdir(src):
    shutil.copy(os.path.join(src, fn), dst)
notes = open(os.path.join(src, 'notes.md')).read() if os.path.exists(os.path.join(src, 'notes.md')) else ''
results = {}
for p in props:
    if subprocess.run(['git', '-C', '/repo', 'diff', '--quiet']).returncode != 0:
        print('/repo dirty'); sys.exit(2)
    # the evidence file describes the unchanged tree: keep it across the run against the change
    evp = os.path.join(VERIF, 'evidence', p + '.json')
    evidence_backup = open(evp).read() if os.path.exists(evp) else None
    subprocess.run(['git', '-C', '/repo', 'apply', os.path.join(dst, 'patch.diff')], check=True)
    t0 = time.time()
    try:
        r = subprocess.run([os.path.join(VERIF, 'check'), p, '--tier', 'quick'], cwd=VERIF, stdout=subprocess.PIPE, stderr=subprocess.STDOUT, text=True, timeout=3600)
        lines = [l for l in r.stdout.splitlines() if l.startswith(('VIOLATION', 'OK', 'KNOWN'))]
        rc = r.returncode
    finally:
        subprocess.run(['git', '-C', '/repo', 'checkout', '--', '.'])
        subprocess.run(['git', '-C', '/repo', 'clean', '-fdq'])
        if evidence_backup is not None:
            open(evp, 'w').write(evidence_backup)
    replay = None
    m = re.search(r'replay=(\S+)', '\n'.join(lines))
    if m and os.path.exists(m.group(1)):
        replay = json.load(open(m.group(1)))
        shutil.copy(m.group(1), os.path.join(dst, 'replay-%s.json' % p))
        os.remove(m.group(1))
    results[p] = {'exit': rc, 'lines': lines, 'wall_s': round(time.time() - t0, 1),
                  'caught': rc == 1 and any(l.startswith('VIOLATION') for l in lines), 'with_failing_input': rc == 1 and any(l.startswith('VIOLATION') for l in lines) and not any('no-failing-input-found' in l for l in lines),
                  'replay_kind': (replay or {}).get('kind'), 'relation': (replay or {}).get('relation_or_op')}
    print(p, rc, lines)
meta = {'breaks_property': prop, 'source': 'independent sub-agent given only the property text and a scratch worktree',
        'confirmation': verdict, 'needs_to_manifest': notes[:1500], 'checks_run': results,
        'how_run': 'git -C /repo apply seeded/%s/patch.diff; ./check <prop> --tier quick; git -C /repo checkout -- .' % name}
json.dump(meta, open(os.path.join(dst, 'meta.json'), 'w'), indent=1)
