#!/usr/bin/env python3
"""Print the markdown table of seeded changes (seeded/*/meta.json): what each is, which checks were run
against it and what they reported."""
import json, os, re
VERIF = os.path.dirname(os.path.dirname(os.path.abspath(__file__)))
rows = []
for name in sorted(os.listdir(os.path.join(VERIF, 'seeded'))):
    mp = os.path.join(VERIF, 'seeded', name, 'meta.json')
    if not os.path.exists(mp):
        continue
    m = json.load(open(mp))
    what = m.get('what') or ''
    if not what:
        notes = m.get('needs_to_manifest', '')
        hl = [l for l in notes.splitlines() if l.startswith('#')]
        what = (hl[0].lstrip('# ').strip() if hl else notes[:100]).replace('|', '/')
        what = re.sub(r'^C\d\d mutant \d\s*[—-]\s*', '', what)
        what = re.sub(r'^Mutant \d\s*[—:-]\s*', '', what)
    res = []
    for p, c in sorted(m.get('checks_run', {}).items()):
        if c.get('caught'):
            res.append('%s: caught, %s' % (p, ('failing input (%s)' % c.get('relation')) if c.get('with_failing_input') else 'no-failing-input-found'))
        else:
            res.append('%s: not caught' % p)
    rows.append('| %s | %s | %s | %s |' % (name, m.get('breaks_property', ''), what[:170].replace('\n', ' '), '; '.join(res)))
print('| seeded change | property | what it does | result of the checks (quick tier) |')
print('|---|---|---|---|')
print('\n'.join(rows))
