#!/bin/sh
# tools/soak.sh <minutes> <tier> <ids…> — run the checks of the given properties over and over with fresh seeds for
# about <minutes> minutes on the unchanged tree; prints one line per run, keeps the replays of anything it finds.
cd "$(dirname "$0")/.." || exit 2
mins=${1:-60}; tier=${2:-thorough}; shift 2
ids="$*"
[ -x harness/bin/kvh ] && [ -x lean/.lake/build/bin/kdriver ] || ./setup.sh >/dev/null 2>&1
end=$(( $(date +%s) + mins * 60 ))
seed=$(( $(date +%s) % 100000 + 1000 ))
while [ "$(date +%s)" -lt "$end" ]; do
  for id in $ids; do
    seed=$(( seed + 1 ))
    t0=$(date +%s)
    out=$(VERIF_SEED=$seed ./check "$id" --tier "$tier" 2>&1 | grep -v '^KNOWN-FINDING' | tail -2 | tr '\n' ' ')
    echo "$(date +%H:%M:%S) seed=$seed $id $(( $(date +%s) - t0 ))s :: $out"
    case "$out" in *VIOLATION*) mkdir -p soak-finds; cp replays/$id-*.json soak-finds/ 2>/dev/null;; esac
  done
done
