#!/bin/sh
# tools/sweep.sh <tier> <seed> [ids…] — run the checks of all (or the given) properties at one tier and seed on the
# unchanged tree and print one line each; evidence written by a sweep is not meant to be committed (see refresh_evidence.sh).
cd "$(dirname "$0")/.." || exit 2
tier=${1:-thorough}; seed=${2:-1}; shift 2 2>/dev/null
ids="$*"
[ -n "$ids" ] || ids=$(python3 -c "import sys; sys.path.insert(0,'lib'); import claims; print(' '.join(sorted(claims.CLAIMS)))")
[ -x harness/bin/kvh ] && [ -x lean/.lake/build/bin/kdriver ] || ./setup.sh >/dev/null 2>&1
for id in $ids; do
  t0=$(date +%s)
  out=$(VERIF_SEED=$seed ./check "$id" --tier "$tier" 2>&1 | grep -v '^KNOWN-FINDING' | tail -3 | tr '\n' ' ')
  echo "$(date +%H:%M:%S) seed=$seed $id $(( $(date +%s) - t0 ))s :: $out"
done
