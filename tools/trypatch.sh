#!/bin/sh
# tools/trypatch.sh <patch.diff> <Cxx> [tier]  — apply a seeded change to /repo, run the check, undo.
set -u
patch="$(realpath "$1")"; prop="$2"; tier="${3:-quick}"
cd /repo || exit 2
if ! git diff --quiet; then echo "/repo has local changes"; exit 2; fi
git apply "$patch" || { echo "patch does not apply"; exit 2; }
cd /verif && ./check "$prop" --tier "$tier"; rc=$?
git -C /repo checkout -- . && git -C /repo clean -fdq
echo "exit=$rc"
exit 0
